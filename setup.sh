#!/bin/sh
# Build the overlay venv used by every check: /venv's python 3.12 + site-packages (repo deps),
# plus z3-solver (and crosshair-tool) from the offline wheelhouse. Idempotent.
set -e
V=/verif/.venv
if [ ! -x "$V/bin/python" ] || ! "$V/bin/python" -c "import z3" 2>/dev/null; then
  rm -rf "$V"
  /venv/bin/python -m venv "$V"
  SP=$("$V/bin/python" -c "import sysconfig; print(sysconfig.get_paths()['purelib'])")
  printf "import site; site.addsitedir('/venv/lib/python3.12/site-packages')\n" > "$SP/verif_overlay.pth"
  PIP_NO_INDEX=1 "$V/bin/pip" install -q --no-index --find-links /opt/veriftools/wheels z3-solver >/dev/null
  PIP_NO_INDEX=1 "$V/bin/pip" install -q --no-index --find-links /opt/veriftools/wheels crosshair-tool >/dev/null 2>&1 || true
fi
"$V/bin/python" -c "import z3, bibtexparser; print('setup ok: z3', z3.get_version_string(), 'bibtexparser', bibtexparser.__file__)"
