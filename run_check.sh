#!/bin/sh
# usage: run_check.sh <module> [tier] [extra args]
# Runs checks/<module>.py from the directory this script lives in (normally /verif; a snapshot of
# it under `vp run`) with the overlay venv /verif/.venv (built by setup.sh if missing).
HERE="$(cd "$(dirname "$0")" && pwd)"
cd "$HERE" || exit 2
PY=/verif/.venv/bin/python
[ -x "$PY" ] && "$PY" -c "import z3" 2>/dev/null || "$HERE/setup.sh" >/dev/null || exit 2
# VERIF_REPO (default /repo) is only overridden when evaluating seeded changes in scratch worktrees
export PYTHONPATH="$HERE:${VERIF_REPO:-/repo}" PYTHONHASHSEED=0
m="$1"; t="${2:-quick}"
shift; [ $# -gt 0 ] && shift
exec "$PY" -m pysym.run "$m" --tier "$t" "$@"
