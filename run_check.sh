#!/bin/sh
# usage: run_check.sh <module> <tier>   (cwd = /verif)
cd "$(dirname "$0")" || exit 2
[ -x .venv/bin/python ] && .venv/bin/python -c "import z3" 2>/dev/null || ./setup.sh >/dev/null || exit 2
export PYTHONPATH=/verif:/repo PYTHONHASHSEED=0
exec .venv/bin/python -m "checks.$1" --tier "${2:-quick}"
