#!/bin/sh
# usage: run_check.sh <module> [tier] [extra args]   (cwd = /verif)
cd "$(dirname "$0")" || exit 2
[ -x .venv/bin/python ] && .venv/bin/python -c "import z3" 2>/dev/null || ./setup.sh >/dev/null || exit 2
export PYTHONPATH=/verif:/repo PYTHONHASHSEED=0
m="$1"; t="${2:-quick}"
shift; [ $# -gt 0 ] && shift
exec .venv/bin/python -m "checks.$m" --tier "$t" "$@"
