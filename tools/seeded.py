#!/usr/bin/env python3
"""Seeded-change bookkeeping.

  seeded.py import  CXX        copy /tmp/wt/CXX/_seed/{A,B} to /verif/seeded/CXX-{A,B}, verify each in the scratch
                               worktree (suite passes with the patch, demo fails with / passes without) and write meta.json
  seeded.py eval    [ID ...]   apply each kept change to /repo, run the owning property's check (quick, then thorough if
                               quick misses it), undo, record the outcome in meta.json
  seeded.py table              print the catch table (markdown)
"""
import json, os, subprocess, sys, shutil, time, glob

VERIF = os.path.dirname(os.path.dirname(os.path.abspath(__file__)))
SEEDED = os.path.join(VERIF, "seeded")
# where the checks are run from (a checkout of an earlier /verif commit when a first evaluation must not see later edits)
CHECKS_DIR = os.environ.get("SEED_CHECKS_DIR", VERIF)
WT_BASE = os.environ.get("SEED_WT", "/tmp/wt")


def sh(cmd, cwd=None, timeout=3600):
    p = subprocess.run(cmd, shell=True, cwd=cwd, capture_output=True, text=True, timeout=timeout)
    return p.returncode, (p.stdout + p.stderr)


def do_import(pid, letters=("A", "B"), base="/tmp/wt"):
    wt = f"{base}/{pid}"
    for x in letters:
        src = f"{wt}/_seed/{x}"
        if not os.path.exists(f"{src}/patch.diff"):
            print(pid, x, "missing"); continue
        sid = f"{pid}-{x}"
        dst = os.path.join(SEEDED, sid)
        os.makedirs(dst, exist_ok=True)
        for f in ("patch.diff", "demo.py", "notes.txt"):
            if os.path.exists(f"{src}/{f}"):
                shutil.copy(f"{src}/{f}", f"{dst}/{f}")
        meta = {"id": sid, "property": pid, "origin": "independent sub-agent given only the property text and a scratch worktree",
                "needs_to_manifest": open(f"{dst}/notes.txt").read().strip() if os.path.exists(f"{dst}/notes.txt") else ""}
        # --- verification in the scratch worktree
        sh("git checkout -- . && git clean -fdq -e _seed", cwd=wt)
        rc0, out0 = sh(f"/venv/bin/python _seed/{x}/demo.py", cwd=wt, timeout=600)
        rca, outa = sh(f"git apply --check _seed/{x}/patch.diff && git apply _seed/{x}/patch.diff", cwd=wt)
        rct, outt = sh("/venv/bin/python -m pytest -q -p no:cacheprovider -x 2>&1 | tail -3", cwd=wt, timeout=1800)
        rc1, out1 = sh(f"/venv/bin/python _seed/{x}/demo.py", cwd=wt, timeout=600)
        sh("git checkout -- .", cwd=wt)
        passed = "passed" in outt and "failed" not in outt and "error" not in outt.lower()
        meta["verified"] = {"demo_without_patch_exit": rc0, "patch_applies": rca == 0, "suite_passes_with_patch": passed,
                            "suite_tail": outt.strip().splitlines()[-1] if outt.strip() else "", "demo_with_patch_exit": rc1,
                            "demo_output_with_patch": out1.strip()[-400:], "ran": [
                                f"cd {wt} && /venv/bin/python _seed/{x}/demo.py   (clean tree)", "git apply patch.diff",
                                "/venv/bin/python -m pytest -q -p no:cacheprovider -x", f"/venv/bin/python _seed/{x}/demo.py   (patched)"]}
        meta["kept"] = bool(rc0 == 0 and rca == 0 and passed and rc1 != 0)
        json.dump(meta, open(f"{dst}/meta.json", "w"), indent=1)
        print(sid, "kept" if meta["kept"] else "REJECTED", meta["verified"]["suite_tail"], "demo", rc0, "->", rc1)


def do_eval(ids, checks=None, stage="detection"):
    """each change is applied in the scratch worktree of its property (never in /repo) and the checks are pointed
    at that worktree with VERIF_REPO; their evidence/replays go to /tmp/seedout/<id> (VERIF_OUT)"""
    for sid in ids:
        d = os.path.join(SEEDED, sid)
        meta = json.load(open(f"{d}/meta.json"))
        if not meta.get("kept") or (stage == "detection_final" and meta.get("neutralised_by_later_fix")):
            continue
        wt = f"{WT_BASE}/{meta['property']}"
        if not os.path.isdir(wt):
            sh(f"git worktree add -q --detach {wt} HEAD", cwd="/repo")
        sh("git checkout -- . ", cwd=wt)
        rc, out = sh(f"git apply {d}/patch.diff", cwd=wt)
        if rc != 0:
            print(sid, "patch does not apply", out[-300:]); continue
        res = meta[stage] = {}
        if checks is None and stage == "detection_final":
            # the property's own check first, then (only if it stays silent) the other checks recorded as owning the behaviour
            cks = [meta["property"]] + list(meta.get("cross_checks", []))
        else:
            cks = checks or [meta["property"]]
        outdir = f"/tmp/seedout/{os.path.basename(WT_BASE)}-{sid}"
        try:
            for c in cks:
                mod = c.lower()
                for tier in os.environ.get("SEED_TIERS", "quick,thorough").split(","):
                    t0 = time.time()
                    rc, out = sh(f"VERIF_REPO={wt} VERIF_OUT={outdir} ./run_check.sh {mod} {tier}", cwd=CHECKS_DIR, timeout=4 * 3600)
                    lines = [l[:300] for l in out.splitlines() if l.startswith(("VIOLATION", "[C", "  counterexample", "  inconclusive", "  non-repro"))]
                    if rc == 1 and not any(l.startswith("VIOLATION property=") for l in out.splitlines()):
                        rc = 2      # a crash of the check is not a verdict
                    lines.sort(key=lambda l: not l.startswith(("VIOLATION", "[C")))
                    res[f"{c}:{tier}"] = {"exit": rc, "wall_s": round(time.time() - t0, 1), "summary": lines[:4]}
                    print(sid, c, tier, "exit", rc, f"{time.time() - t0:.0f}s", (lines[1][:200] if len(lines) > 1 else ""), flush=True)
                    if rc == 1:
                        break
                if any(v["exit"] == 1 for v in res.values()):
                    break
        finally:
            sh("git checkout -- .", cwd=wt)
            shutil.rmtree(outdir, ignore_errors=True)
        meta["caught_by" if stage == "detection" else "caught_by_final"] = sorted({k.split(":")[0] + " (" + k.split(":")[1] + ")" for k, v in res.items() if v["exit"] == 1})
        rc_h, out_h = sh("git rev-parse --short HEAD", cwd=wt)
        meta.setdefault("evaluated_on", {})[stage] = out_h.strip()
        meta["evaluated_how"] = "patch applied in a scratch worktree; check run with VERIF_REPO=<worktree> (same check code, same bounds)"
        json.dump(meta, open(f"{d}/meta.json", "w"), indent=1)


def table():
    rows = []
    n = first = final = 0
    for m in sorted(glob.glob(f"{SEEDED}/*/meta.json")):
        meta = json.load(open(m))
        if not meta.get("kept"):
            continue
        note = (meta.get("needs_to_manifest", "") or "").strip().splitlines()
        note = note[0][:120] if note else ""
        ini = ", ".join(meta.get("caught_by", [])) or ("missed" if meta.get("detection") and all(v["exit"] == 0 for v in meta["detection"].values())
                                                        else ("inconclusive (exit 2)" if meta.get("detection") else "-"))
        fin = ", ".join(meta.get("caught_by_final", [])) or ("missed" if meta.get("detection_final") and all(v["exit"] == 0 for v in meta["detection_final"].values())
                                                              else ("inconclusive (exit 2)" if meta.get("detection_final") else "-"))
        n += 1
        first += bool(meta.get("caught_by"))
        if meta.get("neutralised_by_later_fix"):
            fin = "n/a - neutralised by a later fix: " + meta["neutralised_by_later_fix"][:60]
        final += bool(meta.get("caught_by_final")) and not meta.get("neutralised_by_later_fix")
        rows.append(f"| {meta['id']} | {meta['property']} | {ini} | {fin} | {note} |")
    print(f"{n} kept changes; caught when first evaluated: {first}; caught by the checks as committed: {final}\n")
    # per round
    print("| round | kept | caught when first evaluated | neutralised by a later fix | caught by the checks as committed | not caught |\n|---|---|---|---|---|---|")
    groups = [("1 (A/B)", "AB"), ("2 (C/D)", "CD"), ("3 (E/F)", "EF"), ("4 (G/H)", "GH"), ("5 (I/J)", "IJ"), ("6 (K/L)", "KL"), ("7 (M/N)", "MN"), ("8 (O, mini round: one change per property)", "O"), ("reverse fixes", None)]
    for label, letters in groups:
        k = f1 = f2 = neu = 0
        missed = []
        for mfile in sorted(glob.glob(f"{SEEDED}/*/meta.json")):
            meta = json.load(open(mfile))
            if not meta.get("kept"):
                continue
            sid = meta["id"]
            if letters is None:
                if not sid.startswith("fixrev"):
                    continue
            elif sid.startswith("fixrev") or sid[-1] not in letters:
                continue
            k += 1
            f1 += bool(meta.get("caught_by"))
            if meta.get("neutralised_by_later_fix"):
                neu += 1
            elif meta.get("caught_by_final"):
                f2 += 1
            else:
                missed.append(sid)
        print(f"| {label} | {k} | {f1 if letters else '-'} | {neu} | {f2} | {', '.join(missed) or '-'} |")
    print()
    print("| seeded change | property | first evaluation | final checks | what it is / needs |\n|---|---|---|---|---|")
    print("\n".join(rows))


if __name__ == "__main__":
    cmd = sys.argv[1]
    if cmd == "import":
        for pid in sys.argv[2:]:
            do_import(pid)
    elif cmd == "import2":
        for pid in sys.argv[2:]:
            do_import(pid, ("C", "D"))
    elif cmd == "import3":
        for pid in sys.argv[2:]:
            do_import(pid, ("E", "F"))
    elif cmd == "import4":
        for pid in sys.argv[2:]:
            do_import(pid, ("G", "H"), base="/tmp/wt4")
    elif cmd == "import7":
        for pid in sys.argv[2:]:
            do_import(pid, ("M", "N"), base="/tmp/wt7")
    elif cmd == "import8":
        for pid in sys.argv[2:]:
            do_import(pid, ("O",), base="/tmp/wt8")
    elif cmd == "import6":
        for pid in sys.argv[2:]:
            do_import(pid, ("K", "L"), base="/tmp/wt6")
    elif cmd == "import5":
        for pid in sys.argv[2:]:
            do_import(pid, ("I", "J"), base="/tmp/wt5")
    elif cmd == "eval":
        ids = sys.argv[2:] or sorted(os.path.basename(os.path.dirname(m)) for m in glob.glob(f"{SEEDED}/*/meta.json"))
        do_eval(ids)
    elif cmd == "evalwith":
        do_eval([sys.argv[2]], checks=sys.argv[3:], stage="detection_with")
    elif cmd == "reeval":
        ids = sys.argv[2:] or sorted(os.path.basename(os.path.dirname(m)) for m in glob.glob(f"{SEEDED}/*/meta.json"))
        do_eval(ids, stage="detection_final")
    elif cmd == "table":
        table()
