#!/usr/bin/env python3
"""Regenerates /verif/MANIFEST.json from the table below and validates it against the schema."""
import json, os, sys

HERE = os.path.dirname(os.path.dirname(os.path.abspath(__file__)))
ALL = [f"C{i:02d}" for i in range(1, 21)]

TECH = "bounded symbolic execution of the real CPython bytecode (pysym: concrete skeleton, symbolic characters, world merging) + z3 queries per final world; counterexamples replayed on the real code"

MORE = {
    "C01": " For the size clause, up to 4 (quick) / 16 (thorough) distinct solver witnesses of every execution path of the texts of length 3 are replayed on the real code with every character and short segment repeated 2000 times under a CPU-time watchdog.",
    "C15": " For the no-exception clause at large sizes, solver witnesses of every path of the short numeric family are replayed on the real code with every character repeated 5000 times.",
    "C07": " A stack that raises is accepted only when the same stack also raises in in-place mode on a fresh copy of the library; the same middleware instance is also applied to its own result.",
    "C08": " The universe holds a field-less entry, a @string with an empty value and two value-equal comments; positions are looked up identity-first.",
    "C18": " What the default constructors hand to pylatexenc (rules, options) is checked against recording stand-ins for two constructions in a row.",
}

CHECKS = {
    "C12": dict(
        text="All strings up to the stated length over a 13-symbol alphabet are executed symbolically through the real split_multiple_persons_names; z3 decides conservation, idempotence and agreement with a reference splitter per final world. Bounded exhaustive-by-solver inside the bound, nothing outside it.",
        note="Trusted: pysym's bytecode interpreter and builtin models (validated in concrete mode against CPython on the repo's test corpus and per-world sample replays), z3. Bounds: alphabet and lengths in evidence.bounds.",
        ref="§4 C12"),
}

CHECKS["C13"] = dict(
    text="All names up to the stated lengths over two alphabets (plain words/commas/ties; braces/escapes/special characters) are executed symbolically through the real parse_single_name_into_parts and SplitNameParts; per final world z3 decides equality with an executable transcription of BibTeX's rules that is first validated on the repository's 149-case BibTeX-derived corpus.",
    note="Trusted: pysym interpreter/models, the oracle checks/names_oracle.py (validated on the repo corpus each run), z3. Inputs the oracle marks 'unspecified' (nested special characters etc.) are skipped.",
    ref="§4 C13")

CHECKS["C15"] = dict(
    text="The month value is a symbolic string (all strings of length 0..9 over the letters of the twelve English names in both cases plus digit/encloser/filler symbols; all digit strings of length <= 3 incl. non-ASCII digit characters) or a symbolic int; the three real middlewares and all nine ordered pairs are executed symbolically and z3 decides, per final world, conversion of every spelling, identity on every non-month and composition. Exhaustive by solver inside the alphabet/length bound.",
    note="Trusted: pysym interpreter/models, z3. 'digit string' is read as ASCII decimal digits. Values outside the alphabets, longer than 9 characters, or of other types are outside the claim.",
    ref="§4 C15")

CHECKS["C03"] = dict(
    text="Every text up to the stated length over the splitter alphabet (one representative per character class of the mark regex), alone and between/after concrete well-formed blocks, is run symbolically through the real Splitter (regex handled by a parse-tree-driven model of re.finditer); per final world z3 decides that raws are contiguous input runs in order, gaps are whitespace, start_line equals the newline count before the raw, and same-line fields report their line.",
    note="Trusted: pysym interpreter/models incl. the re.finditer model (validated per world against the real splitter on solver models), z3. Alphabet and lengths are the bound.",
    ref="§4 C03")
CHECKS["C10"] = dict(
    text="The value is a symbolic string (all strings up to the bound over braces/quotes/#/blank/letter/digit/backslash) or a symbolic int; every option combination of AddEnclosing, both block kinds, with and without prior removal, and the re-parse clause through the real Splitter are executed symbolically; z3 decides each clause against an oracle transcribed from the statement.",
    note="Trusted: pysym interpreter/models, z3. Re-parse clause restricted as in the statement (escape-aware brace balance, no trailing backslash, no bare quote for the quote default).",
    ref="§4 C10")
CHECKS["C14"] = dict(
    text="One symbolic name (function pair), two symbolic names joined by ' and ' (the four middlewares) and a symbolic name inside '@a{k, author = {NAME}}' (parse_string with appended middlewares, write_string with prepended inverses, re-parse) are executed symbolically; z3 decides, under the statement's preconditions evaluated on the symbolic result, that the re-split parts equal the first parts.",
    note="Trusted: pysym interpreter/models (deepcopy is the interpreted stdlib copy module), z3. Bounds in evidence.",
    ref="§4 C14")

CHECKS["C01"] = dict(
    text="Every text up to the stated length over the splitter alphabet, alone and around concrete blocks (incl. duplicate keys/fields and @string references), is run symbolically through the real parse_string and write_string (default stacks, interpreted stdlib deepcopy); z3 decides per final world that no exception escapes and failed blocks carry error and raw. Non-termination shows as a per-world step-limit hit; input-driven recursion (a repo function more than twice on the stack) is reported and confirmed by replaying a pumped input on the real code - that is how sizes beyond the bound are covered.",
    note="Trusted: pysym interpreter/models incl. the re.finditer model, z3. The claim for 10^3..10^5-line inputs rests on the recursion/step obligations, not on executing such inputs symbolically.",
    ref="§4 C01")
CHECKS["C02"] = dict(
    text="Documents are symbolic templates derived from the dialect grammar of DESIGN §3.1 (all single blocks with value/text holes up to 6-7 characters, all ordered pairs, thorough: triples); hole contents are restricted to the grammar by interpreting its recognisers on the symbolic holes, and z3 decides per final world that the real Splitter returns exactly the template's constructive ground truth.",
    note="Trusted: pysym interpreter/models, the grammar recognisers in checks/grammar.py, z3. Duplicate keys are excluded (C09).",
    ref="§4 C02, §3.1")
CHECKS["C04"] = dict(
    text="X in D1 + X + newline + D2 is fully symbolic (every text up to the bound over the splitter alphabet) for 7 concrete D1 and 5 concrete D2; the real Splitter is run symbolically and z3 decides per final world that the blocks of D1 are a prefix and those of D2 a suffix (class, keys, fields, values, texts, raw) and that blank X yields the plain concatenation.",
    note="Trusted: pysym interpreter/models, z3. D1/D2 are the listed concrete documents.",
    ref="§4 C04")

CHECKS["C09"] = dict(
    text="Every entry key, string key and field key in documents of 2-3 (thorough 4) blocks is a symbolic character over {a,b}, so all collision patterns are solver-chosen; the real parse_string is executed symbolically together with an oracle transcribed from the statement, and z3 decides per final world that live blocks, duplicate-key wrappers (key, previous block, complete duplicate) and duplicate-field wrappers (all occurrences in order, exact duplicate set, not registered) are exactly as stated.",
    note="Trusted: pysym interpreter/models, z3. Keys are one character; values fixed.",
    ref="§4 C09")
CHECKS["C11"] = dict(
    text="@string keys and referenced identifiers are symbolic 1-2 character names over {a,A,b}; value shape and definition placement are enumerated templates; parse_string (default stack) is executed symbolically and z3 decides per final world that exactly the bare names equal to a defined key take the first definition's parsed value, that the resolved keys are recorded, that every other field keeps its text and that @string blocks equal those of a plain split + enclosure removal.",
    note="Trusted: pysym interpreter/models, z3. Names up to 2 characters; three fixed @string values.",
    ref="§4 C11")

CHECKS["C05"] = dict(
    text="Grammar-derived symbolic templates (single blocks, all ordered pairs, @string before/after use; thorough: triples) combined with symbolic format options (trailing_comma, value_column 0..12 or auto, symbolic indent and separator whitespace) are pushed through the real parse_string -> write_string -> parse_string -> write_string; z3 decides per final world that the second library equals the first and that the second text equals the first character for character.",
    note="Trusted: pysym interpreter/models (deepcopy = interpreted stdlib copy), grammar recognisers, z3. Whitespace-only separators/indents, no duplicate keys, @comment bodies not ending in a backslash after stripping.",
    ref="§4 C05")

CHECKS["C17"] = dict(
    text="Field keys (1-2 symbolic characters over {a,A,b,B}) of entries with 0..4 (thorough 5) fields and the keys of the custom order are symbolic; the three real middlewares (sorting through the engine's stable-sort model calling the interpreted key functions) run twice each; z3 decides per final world permutation, order by key / by rank in the order (case folding as configured), stability, constructor rejection exactly on folded duplicates, last-wins normalisation against an interpreted oracle, idempotence and untouched type/key/other blocks.",
    note="Trusted: pysym interpreter/models incl. the sorted() model, z3.",
    ref="§4 C17")
CHECKS["C19"] = dict(
    text="Mapping: pre-states of 0..3 fields with symbolic distinct keys and every sequence of 1..2 (thorough 3) operations with symbolic key arguments are executed symbolically on the real Entry next to a dictionary subjected to the same operations; z3 decides equal results and equal fields / fields_dict / items() views after every step. Equality: pairs of blocks/fields of every kind with all attributes symbolic; z3 decides a == b iff same class and all attributes equal, and that copy / deepcopy (interpreted stdlib) are equal but distinct objects.",
    note="Trusted: pysym interpreter/models (the oracle dictionary is the engine's dict model), z3.",
    ref="§4 C19")

CHECKS["C16"] = dict(
    text="For every kind sequence of up to 3 (thorough 4) blocks over the six block kinds (plus selected length-4 sequences), five type orders and both comment modes, the keys of all keyed blocks are symbolic over {a,b} (collisions create duplicate wrappers); the real middleware (stable-sort model calling the interpreted key closures, interpreted deepcopy) runs next to an oracle transcribed from the statement and z3 decides per final world that the output is exactly the expected permutation of unaltered copies and that the input library is untouched.",
    note="Trusted: pysym interpreter/models incl. the list.sort model, z3.",
    ref="§4 C16")
CHECKS["C08"] = dict(
    text="Every history of up to 3 (thorough 4) calls from a 35-shape operation space (add / add with fail_on_duplicate_key / list add / remove / list remove / replace in both fail modes, arguments from a 7-block universe or the held blocks) is executed symbolically with all Entry/String keys symbolic over {a,b}; after every call an interpreted transcription of the statement decides the block list, the representation invariant, all views and rollback on ValueError. One call site is a recorded known finding (add with fail_on_duplicate_key=True mutates before raising).",
    note="Trusted: pysym interpreter/models (list.remove/index call the interpreted Block.__eq__), z3. Known finding listed in known_findings.json.",
    ref="§4 C08")

CHECKS["C06"] = dict(
    text="Libraries of every listed shape (entries with 0..3 fields and key lengths 1..4, string, preamble, comments, failed and duplicate blocks; singles and all pairs, thorough: triples) are written by the real writer under a symbolic format (value_column 0..14 or auto, trailing_comma, symbolic indent/separator characters, default and custom failed-block comment) with symbolic key/value/text characters; z3 decides per final world that the text equals the rendering the statement describes, built term by term from the same symbols, and that the format object is unchanged.",
    note="Trusted: pysym interpreter/models, z3. Renderings of @string/@preamble/comments are the writer's documented forms.",
    ref="§4 C06")

CHECKS["C18"] = dict(
    text="The third-party converter is replaced by a nondeterministic stub (each call returns a marked copy of its input or raises, chosen by a fresh symbolic boolean, so all failure patterns are solver-chosen); a library with every block kind and an entry holding str, int and NameParts values is pushed through both real middlewares in copy and in-place mode; z3 decides per final world that exactly the text values were converted once, types/keys/raw/lines/other blocks are untouched and that any failure yields a MiddlewareErrorBlock around the entry/string rather than an exception. The round-trip clause is not claimed.",
    note="Trusted: pysym interpreter/models, z3. pylatexenc itself is stubbed: decode(encode(t)) == t is outside the claim (DESIGN §6).",
    ref="§4 C18, §6")

CHECKS["C20"] = dict(
    text="parse_string / write_string are executed symbolically on a partly symbolic document for every combination of full stack / appended / prepended order-sensitive probe middlewares (block and library probes, passed as list, tuple or one-shot iterator) next to the explicit composition the statement describes, and z3 decides equality per final world; both-given raises ValueError; every per-block result kind (None, empty, block, list, tuple, generator, int, str, mixed list) is spliced or rejected with TypeError as stated; parse_file / write_file run against a recording open() stub for four encodings and both target kinds.",
    note="Trusted: pysym interpreter/models, z3. Real codecs and the OS are outside the claim (open() is a stub; only argument pass-through and equality with the string entry points are claimed).",
    ref="§4 C20")

CHECKS["C07"] = dict(
    text="allow_inplace_modification is a symbolic boolean and the input library is the parse of a partly symbolic document (duplicate keys, duplicate fields, failed blocks, @string reference, name and month fields), as split, after the default stack and after name splitting; each of the 18 shipped middleware configurations (and selected pairs; thorough: all ordered pairs) and write_string are executed symbolically. In every world where the flag is False (always for the block sorter / write_string) the engine's heap is walked to show that no mutable block, field, list, NameParts or metadata dict is reachable from both input and output, and z3 decides that the deep snapshot of the input before equals the one after; writing twice gives term-identical text and an unchanged format.",
    note="Trusted: pysym interpreter/models (interpreted stdlib deepcopy), the heap walk in checks/c07.py, z3. Exception objects in failed blocks are shared by design and excluded.",
    ref="§4 C07")

NOT_YET = "check not built yet in this round (engine exists; harness pending)"

def main():
    checks = []
    for pid in ALL:
        c = CHECKS.get(pid)
        if not c:
            continue
        mod = pid.lower()
        checks.append({
            "property_id": pid,
            "quick_cmd": f"./run_check.sh {mod} quick",
            "thorough_cmd": f"./run_check.sh {mod} thorough",
            "evidence_file": f"/verif/evidence/{pid}.json",
            "replay_cmd_template": "cat {path}",
            "engine": "pysym",
            "level_claimed": {"category": "model_checking", "text": c["text"] + MORE.get(pid, "") + " Further input families and multi-call obligations (one middleware instance on several libraries, repeated calls, degenerate libraries) are listed in DESIGN.md §4 and, machine-written, in evidence coverage.bounds.", "design_ref": c["ref"]},
            "level_note": c["note"],
            "technique": c.get("technique", TECH),
        })
    na = [{"property_id": pid, "reason": NA.get(pid, NOT_YET)} for pid in ALL if pid not in CHECKS]
    m = {
        "version": 1,
        "setup_cmd": "./setup.sh",
        "hooks": {
            "guard": "BIBTEXPARSER_VERIF",
            "enable": "no source hooks are needed: observation happens inside the symbolic interpreter, which executes the bytecode of /repo's working tree",
            "baseline_off_cmd": "cd /repo && /venv/bin/python -m pytest -ra -q -p no:cacheprovider --timeout=900 --continue-on-collection-errors",
            "source_commits": [],
            "add_only": True,
        },
        "engines": [{"name": "pysym", "path": "/verif/pysym", "serves_properties": sorted(CHECKS),
                     "kind_free_text": "bounded symbolic interpreter of CPython 3.12 bytecode over z3 (symbolic characters / ints / bools on a concrete skeleton, world forking and merging)"}],
        "checks": checks,
        "not_applicable": na,
        "notes": "Exit codes of every check: 0 pass (KNOWN-FINDING lines possible), 1 reproduced violation, 2 inconclusive/harness error. See DESIGN.md.",
    }
    with open(os.path.join(HERE, "MANIFEST.json"), "w") as f:
        json.dump(m, f, indent=1)
    try:
        import jsonschema
        jsonschema.validate(m, json.load(open("/root/.vp/MANIFEST.schema.json")))
        print("MANIFEST.json valid;", len(checks), "checks,", len(na), "not_applicable")
    except ImportError:
        print("jsonschema not available; not validated")

NA = {}

if __name__ == "__main__":
    main()
