"""C06 — written text obeys the BibtexFormat contract and carries every block's content.

Encoded: writer.write, _treat_block, _treat_entry, _val_intent_string, _treat_string, _treat_preamble,
_treat_impl_comment, _treat_expl_comment, _treat_failed_block, _calculate_auto_value_align, BibtexFormat
(constructor, every getter/setter), Library.blocks/entries, Entry.fields_dict; deepcopy of the format is
the interpreted stdlib function.
Symbolic: value_column (int 0..14 or 'auto'), trailing_comma, the characters of indent, separator, keys,
values, comment / preamble / raw texts (raw over {x, newline}: the line count is symbolic); key lengths,
block kinds and field counts are enumerated.
Oracle: the rendering the statement describes, built term by term from the same symbolic strings.
"""
import sys
import itertools

from pysym.engine import Engine
from pysym.values import *  # noqa
from pysym.harness import Check, Recorder

from bibtexparser import writer as WR
from bibtexparser.writer import BibtexFormat
from bibtexparser import model as M
from bibtexparser.library import Library

CUSTOM = "%% custom {n} line(s) failed"
BAD = "% failed {n} {oops}"     # cannot be filled in with n alone: str.format raises KeyError
COLMAX = 14


def build(spec):
    """blocks get the same start_line / raw, so two blocks with equal symbolic content compare equal (Block.__eq__)"""
    blocks = []
    i = 0
    for b in spec:
        kd = b[0]
        if kd == "E":
            blocks.append(M.Entry(b[1], b[2], [M.Field(k, v) for k, v in b[3]], i, "raw"))
        elif kd == "S":
            blocks.append(M.String(b[1], b[2], i, "raw"))
        elif kd == "P":
            blocks.append(M.Preamble(b[1], 0, "raw"))
        elif kd == "X":
            blocks.append(M.ExplicitComment(b[1], 0, "raw"))
        elif kd == "I":
            blocks.append(M.ImplicitComment(b[1], 0, "raw"))
        elif kd == "F":
            blocks.append(M.ParsingFailedBlock(Exception("e"), i, b[1]))
        elif kd == "D":
            inner = M.Entry("t", "dk", [], i, b[1])
            blocks.append(M.DuplicateBlockKeyBlock("dk", inner, inner, i, b[1]))
        i += 1
    return blocks


def drv(spec, indent, sep, trailing, column, custom, column2=None):
    lib = Library(build(spec))
    fmt = BibtexFormat()
    fmt.indent = indent
    fmt.block_separator = sep
    fmt.trailing_comma = trailing
    fmt.value_column = column
    if custom is not None:
        fmt.parsing_failed_comment = custom
    before = dict(fmt.__dict__)
    if custom == BAD:
        # a template the writer cannot fill in: whatever write() does about it, the caller's format stays as it was
        try:
            out = WR.write(lib, fmt)
        except (KeyError, IndexError, ValueError):
            out = None
    else:
        out = WR.write(lib, fmt)
    after = dict(fmt.__dict__)
    out2 = None
    if column2 is not None:
        # the same format object, reconfigured, must give the text of a fresh format with that setting
        fmt.value_column = column2
        out2 = WR.write(lib, fmt)
    return out, before, after, len(lib.blocks), out2


# ------------------------------------------------------------------ oracle
def n_lines_alts(raw):
    """[(cond, n)] : number of lines of raw as str.splitlines counts them (raw over x / newline)"""
    cs = chars(raw)
    out = []
    for pattern in itertools.product((False, True), repeat=len(cs)):
        cond = b_all(ch_eq(c, "\n") if p else b_not(ch_eq(c, "\n")) for c, p in zip(cs, pattern))
        if cond is False:
            continue
        s = "".join("\n" if p else "x" for p in pattern)
        out.append((cond, len(s.splitlines())))
    return out


def render(spec, indent, sep, trailing_val, col, custom):
    """list of (cond, expected text) ; col is a concrete int"""
    alts = [(True, ())]
    n = len(spec)
    for bi, b in enumerate(spec):
        kd = b[0]
        if kd == "E":
            t = tuple("@") + chars(b[1]) + tuple("{") + chars(b[2]) + tuple(",\n")
            for fi, (k, v) in enumerate(b[3]):
                pad = col - len(chars(k)) - 3
                t += chars(indent) + chars(k) + tuple(" " * max(pad, 0)) + tuple(" = ") + (tuple(str(v)) if isinstance(v, int) else chars(v))
                if trailing_val or fi < len(b[3]) - 1:
                    t += tuple(",")
                t += tuple("\n")
            t += tuple("}\n")
            piece = [(True, t)]
        elif kd == "S":
            piece = [(True, tuple("@string{") + chars(b[1]) + tuple(" = ") + chars(b[2]) + tuple("}\n"))]
        elif kd == "P":
            piece = [(True, tuple("@preamble{") + chars(b[1]) + tuple("}\n"))]
        elif kd == "X":
            piece = [(True, tuple("@comment{") + chars(b[1]) + tuple("}\n"))]
        elif kd == "I":
            piece = [(True, chars(b[1]) + tuple("\n"))]
        else:
            tmpl = custom if custom is not None else "% WARNING Parsing failed for the following {n} lines."
            piece = [(c, tuple(tmpl.format(n=k)) + tuple("\n") + chars(b[1]) + tuple("\n")) for c, k in n_lines_alts(b[1])]
        if bi < n - 1:
            piece = [(c, t + chars(sep)) for c, t in piece]
        alts = [(b_and(c1, c2), t1 + t2) for c1, t1 in alts for c2, t2 in piece if b_and(c1, c2) is not False]
    return [(c, mk(t)) for c, t in alts]


def auto_col(spec):
    m = 0
    for b in spec:
        if b[0] == "E":
            for k, v in b[3]:
                m = max(m, len(chars(k)))
    return m + 3


def replay(spec, indent, sep, trailing, column, custom, column2=None):
    import logging
    logging.disable(logging.CRITICAL)
    try:
        out, before, after, nb, out2 = drv(spec, indent, sep, trailing, column, custom, column2)
    except Exception as ex:  # noqa
        from pysym.harness import guard_repo_exception
        guard_repo_exception(ex)
        return {"input": [spec, indent, sep, trailing, column, custom], "observed": f"raised {type(ex).__name__}: {ex}", "expected": "text"}
    col = auto_col(spec) if column == "auto" else column
    exp = [] if custom == BAD else [t for c, t in render(spec, indent, sep, trailing, col, custom) if c is True]
    ok2 = True
    if column2 is not None:
        exp2 = [t for c, t in render(spec, indent, sep, trailing, column2, custom) if c is True]
        ok2 = len(exp2) == 1 and out2 == exp2[0]
    if custom == BAD:
        if before == after:
            return None
    elif len(exp) == 1 and out == exp[0] and before == after and ok2:
        return None
    return {"input": [spec, indent, sep, trailing, column, custom, column2], "observed": {"text": out, "second_text": out2, "format_changed": before != after},
            "expected": exp[0] if exp else "?"}


def mk_spec(eng, shape):
    """shape: list of ('E', [keylen...]) | 'S' | 'P' | 'X' | 'I' | 'F' | 'D'"""
    spec = []
    for i, sh in enumerate(shape):
        s1 = lambda nm, n=1, a="xy": eng.sym_str(f"{nm}{i}_", n, a)
        if sh[0] == "E":
            flds = [(eng.sym_str(f"f{i}_{j}_", kl, "ab"), s1(f"v{j}_", 2, "x{\n")) for j, kl in enumerate(sh[1])]
            if len(sh) > 2:
                # a field whose value is a Python int (what MonthIntMiddleware / AddEnclosing(enclose_integers=False) leave)
                flds.append(("year", sh[2]))
            spec.append(("E", s1("t"), mk(tuple("k%d" % i) + chars(s1("k"))), flds))
        elif sh[0] == "S":
            spec.append(("S", mk(tuple("s%d" % i) + chars(s1("k"))), s1("v", 2, "x\"\n")))
        elif sh[0] in "PXI":
            spec.append((sh[0], s1("c", 2, "x \n")))
        else:
            spec.append((sh[0], eng.sym_str(f"r{i}_", sh[1] if len(sh) > 1 else 2, "x\n")))
    return spec


def task(shape, column_kind, custom, seplen, indlen, column2=None):
    eng = Engine()
    rec = Recorder(eng)
    spec = mk_spec(eng, shape)
    indent = eng.sym_str("ind", indlen, " \tz") if indlen else ""
    sep = eng.sym_str("sep", seplen, "\n -") if seplen else ""
    trailing = eng.sym_bool("trailing")
    # "auto" built at run time: an equal but not interned string (what a config file / argv would deliver)
    column = "".join(("au", "to")) if column_kind == "auto" else eng.sym_int("col", 0, COLMAX)
    E = eng.I.models.eq_simple
    worlds = eng.run(drv, [spec, indent, sep, trailing, column, custom, column2])
    mv = lambda m, x: eng.model_value(m, x)
    for W in worlds:
        rp = lambda m: replay(mv(m, [list(b) if False else b for b in spec]), mv(m, indent), mv(m, sep), mv(m, trailing), mv(m, column), custom, column2)
        if W.exc is not None:
            rec.require(W, True, "no-exception", rp)
            continue
        out, before, after, nb, out2 = W.result
        same_fmt = set(before) == set(after) and b_all(E(before[k], after[k]) for k in before)
        rec.require(W, b_not(same_fmt), "format-unchanged", rp)
        if custom == BAD:
            if out is None:
                rec.witness("write-raised", W)
            continue
        cols = [auto_col(spec)] if column == "auto" else list(range(0, COLMAX + 1))
        for col in cols:
            ccol = True if column == "auto" else i_cmp("==", column, col)
            for tv in (True, False):
                ct = SBool(trailing.e) if tv else SBool(z3not(trailing.e))
                sat, _ = eng.query(W, b_and(ccol, ct))
                if not sat:
                    continue
                for cond, exp in render(spec, indent, sep, tv, col, custom):
                    good = is_strlike(out) and E(out, exp)
                    rec.require(W, b_all([ccol, ct, cond, b_not(good)]), "text-as-specified", rp)
        if column2 is not None:
            for tv in (True, False):
                ct = SBool(trailing.e) if tv else SBool(z3not(trailing.e))
                for cond, exp in render(spec, indent, sep, tv, column2, custom):
                    good = is_strlike(out2) and E(out2, exp)
                    rec.require(W, b_all([ct, cond, b_not(good)]), "second-write-with-changed-column", rp)
            rec.witness("format-reused", W)
        if any(sh[0] in "FD" for sh in shape):
            rec.witness("failed-block-rendered", W)
    if worlds and not rec.samples and worlds[0].exc is None:
        ok, m = eng.query(worlds[0], True)
        if ok:
            rec.samples.append({"format": [mv(m, indent), mv(m, sep), mv(m, trailing), mv(m, column), custom], "text": mv(m, worlds[0].result[0])})
            rec.validated += 1
    return rec.result(worlds=len(worlds))


def z3not(e):
    import z3
    return z3.Not(e)


def main():
    chk = Check("C06", __doc__)
    shapes = []
    ent = [("E", ()), ("E", (1,)), ("E", (3,)), ("E", (1, 2)), ("E", (2, 4, 1))]
    other = [("S",), ("P",), ("X",), ("I",), ("F", 2), ("D", 1)]
    for e in ent:
        shapes.append([e])
    for o in other:
        shapes.append([o])
    shapes.append([("F", 3)])
    for a, b in itertools.product(ent[1:4] + other, repeat=2):
        shapes.append([a, b])
    # int-valued fields are written as their decimal text
    shapes.append([("E", (1,), 2020)])
    shapes.append([("E", (2, 1), 0), ("S",)])
    shapes.append([("E", (), -7)])
    # fields whose keys have the same length (symbolic keys: they may be EQUAL - repeated field keys are written one by one)
    shapes.append([("E", (1, 1))])
    shapes.append([("E", (2, 1, 2))])
    shapes.append([("E", (1, 1)), ("S",)])
    # a field-less entry beside others (it has no key to align, and must not end the column computation)
    for other_shape in ([("E", (3,))], [("E", (1, 2))], [("S",)], [("E", (1,)), ("E", (3,))]):
        for pos in range(len(other_shape) + 1):
            shapes.append(other_shape[:pos] + [("E", ())] + other_shape[pos:])
    if chk.tier == "thorough":
        for a, b, c in itertools.product([("E", (1, 2)), ("E", (3,)), ("S",), ("I",), ("F", 2)], repeat=3):
            shapes.append([a, b, c])
    chk.bounds = {"libraries": f"{len(shapes)} shapes (entries with 0..3 fields and key lengths 1..4, string, preamble, both comments, failed and duplicate blocks; singles, all pairs" + (", triples" if chk.tier == "thorough" else "") + ")",
                  "format": f"value_column symbolic 0..{COLMAX} or 'auto'; trailing_comma symbolic; indent 0..2 symbolic chars over blank/tab/'z'; separator 0..2 symbolic chars over newline/blank/'-'; default and custom parsing_failed_comment; the empty library; an unfillable parsing_failed_comment template (write raises: format must stay unchanged)"}
    chk.assumptions = ["keys contain no newline (statement: 'own line'); values, comment texts and failed-block raws may (a multi-line value is written verbatim after ' = ': its continuation lines are the value's own, not re-indented)", "string/preamble/comment renderings are the writer's documented forms (@string{k = v}, @preamble{v}, @comment{c}, free text + newline)"]
    chk.expected_vacuity = ["failed-block-rendered", "format-reused", "write-raised"]
    # the empty library, and a write that raises half-way (unfillable parsing_failed_comment template): format untouched
    for ck in ("int", "auto"):
        chk.add_task(f"empty-library-{ck}", task, shape=[], column_kind=ck, custom=None, seplen=1, indlen=1)
        for shape in ([("E", (1, 2)), ("F", 2)], [("F", 2), ("E", (3,))], [("F", 1)]):
            name = "+".join(s[0] for s in shape)
            chk.add_task(f"raising-{name}-{ck}", task, shape=shape, column_kind=ck, custom=BAD, seplen=1, indlen=1)
    # equal blocks (same content, same line) and a format object reused with another column
    for shape in ([("X",), ("X",)], [("I",), ("X",), ("I",)], [("P",), ("P",)], [("X",), ("E", (1,)), ("X",)]):
        name = "+".join(s[0] for s in shape)
        chk.add_task(f"equal-{name}", task, shape=shape, column_kind="int", custom=None, seplen=2, indlen=1)
    for shape in ([("E", (1, 2))], [("E", (3,)), ("S",)], [("E", (2, 4, 1))]):
        name = "+".join(s[0] + "".join(map(str, s[1])) if s[0] == "E" else s[0] for s in shape)
        for c2 in (0, 5, 9):
            chk.add_task(f"reuse-{name}-then{c2}", task, shape=shape, column_kind="int", custom=None, seplen=1, indlen=1, column2=c2)
    for si, shape in enumerate(shapes):
        has_failed = any(s[0] in "FD" for s in shape)
        for ck in ("int", "auto"):
            for custom in ((None, CUSTOM) if has_failed else (None,)):
                for seplen, indlen in ((2, 1), (0, 2)) if len(shape) > 1 else ((1, 2),):
                    if len(shape) > 1 and ck == "auto" and seplen == 0:
                        continue
                    name = "+".join(s[0] + ("".join(map(str, s[1])) if s[0] == "E" else "") for s in shape)
                    chk.add_task(f"{si:03d}-{name}-{ck}-c{int(custom is not None)}-s{seplen}i{indlen}", task, shape=shape, column_kind=ck,
                                 custom=custom, seplen=seplen, indlen=indlen)
    chk.run()


if __name__ == "__main__":
    main()
