"""The BibTeX dialect grammar of DESIGN §3.1 as (a) recognisers for hole contents (interpreted
symbolically, so the solver only sees hole contents that are legal) and (b) a template builder that
emits a symbolic document together with its constructive ground truth."""
from pysym.values import *  # noqa

WS = " \n\t\r"
BARE_OK = "abcdefghijklmnopqrstuvwxyzABCDEFGHIJKLMNOPQRSTUVWXYZ0123456789_.:+/-"
V_SIGMA = '{}",=#\\@ \nx1'
F_SIGMA = 'x ,{"=}%1\x0c'
K_SIGMA = "abA"
W_SIGMA = " \n\t\r"


def no_blockstart(s):
    """no '@' followed by word chars, blanks/tabs and '{'"""
    n = len(s)
    i = 0
    while i < n:
        if s[i] == "@":
            j = i + 1
            while j < n and (s[j].isalnum() or s[j] == "_"):
                j += 1
            while j < n and (s[j] == " " or s[j] == "\t"):
                j += 1
            if j < n and s[j] == "{":
                return False
        i += 1
    return True


def scan_braced(s, i):
    """s[i] == '{' ; returns index after the matching '}' or -1"""
    n = len(s)
    depth = 0
    while i < n:
        c = s[i]
        if c == "\\":
            if i + 1 >= n or s[i + 1] == "\n":
                return -1
            i += 2
            continue
        if c == "{":
            depth += 1
        elif c == "}":
            depth -= 1
            if depth == 0:
                return i + 1
        i += 1
    return -1


def scan_quoted(s, i):
    """s[i] == '"' ; returns index after the closing quote or -1"""
    n = len(s)
    i += 1
    while i < n:
        c = s[i]
        if c == "\\":
            if i + 1 >= n or s[i + 1] == "\n":
                return -1
            i += 2
            continue
        if c == '"':
            return i + 1
        if c == "{":
            j = scan_braced(s, i)
            if j < 0:
                return -1
            i = j
            continue
        if c == "}":
            return -1
        i += 1
    return -1


def is_value(s):
    """value := piece (ws '#' ws piece)* ; no BLOCKSTART inside"""
    n = len(s)
    if n == 0:
        return False
    i = 0
    while True:
        if i >= n:
            return False
        c = s[i]
        if c == "{":
            i = scan_braced(s, i)
        elif c == '"':
            i = scan_quoted(s, i)
        elif c in BARE_OK:
            while i < n and s[i] in BARE_OK:
                i += 1
        else:
            return False
        if i < 0:
            return False
        if i == n:
            return no_blockstart(s)
        while i < n and s[i] in WS:
            i += 1
        if i >= n or s[i] != "#":
            return False
        i += 1
        while i < n and s[i] in WS:
            i += 1


def is_btext(s):
    """( BCHAR | ESC | '{' btext '}' )* : braces balance, quotes are ordinary characters"""
    n = len(s)
    i = 0
    depth = 0
    while i < n:
        c = s[i]
        if c == "\\":
            if i + 1 >= n or s[i + 1] == "\n":
                return False
            i += 2
            continue
        if c == "{":
            depth += 1
        elif c == "}":
            if depth == 0:
                return False
            depth -= 1
        i += 1
    return depth == 0 and no_blockstart(s)


def is_ctext(s):
    """btext whose whitespace-stripped form does not end in an unescaped backslash (the explicit
    comment is stored stripped; DESIGN C05 'outside the claim')"""
    if not is_btext(s):
        return False
    e = len(s)
    while e > 0 and s[e - 1] in WS:
        e -= 1
    if e == len(s):
        return True
    k = 0
    while e - k > 0 and s[e - k - 1] == "\\":
        k += 1
    return k % 2 == 0


def is_svalue(s):
    return is_value(s) and is_btext(s)


def is_key(s):
    if len(s) == 0:
        return False
    for c in s:
        if c in WS or c in '{}",=@\\#':
            return False
    return True


def is_free(s):
    """free text: first and last character are not whitespace (Python's notion: a form feed is whitespace too)"""
    n = len(s)
    if n == 0 or s[0].isspace() or s[n - 1].isspace():
        return False
    return no_blockstart(s) and "@" not in s


def is_ws(s):
    for c in s:
        if c not in WS:
            return False
    return True


LEGAL = {"V": is_value, "SV": is_svalue, "B": is_btext, "BC": is_ctext, "K": is_key, "F": is_free, "W": is_ws}


Q_SIGMA = '{}" x\\'


class Builder:
    """accumulates the symbolic document; every character gets its own term"""

    def __init__(self, eng):
        self.eng = eng
        self.cs = []
        self.holes = []   # (kind, start, end)
        self.expect = []  # ground truth, see add_* methods

    def lit(self, s):
        for ch in s:
            self.cs.append(self.eng.sym_char(f"t{len(self.cs)}", ch))

    def hole(self, kind, n, sigma):
        a = len(self.cs)
        for _ in range(n):
            self.cs.append(self.eng.sym_char(f"t{len(self.cs)}", sigma))
        self.holes.append((kind, a, len(self.cs)))
        return a, len(self.cs)

    def text(self):
        return mk(self.cs)

    def sl(self, ab):
        return mk(self.cs[ab[0]:ab[1]])

    # ---- blocks ----------------------------------------------------------------
    def hws(self, n):
        """blanks/tabs between '@type' and '{' (grammar: hws)"""
        if n:
            self.hole("H", n, " \t")

    def entry(self, nfields, kl=1, vl=2, wl=1, trailing=False, hw=0):
        self.lit("@")
        t = self.hole("T", 2, "aA")
        self.hws(hw)
        self.lit("{")
        w = self.hole("W", wl, W_SIGMA)
        k = self.hole("K", kl, K_SIGMA)
        fields = []
        if nfields == 0 and not trailing:
            self.lit("}")
        else:
            self.lit(",")
            for i in range(nfields):
                self.hole("W", wl, W_SIGMA)
                fk = self.hole("K", kl, K_SIGMA)
                self.lit(" =")
                self.hole("W", wl, W_SIGMA)
                v = self.hole("V", vl, V_SIGMA)
                fields.append((fk, v))
                if i < nfields - 1 or trailing:
                    self.lit(",")
            self.hole("W", wl, W_SIGMA)
            self.lit("}")
        self.expect.append(("Entry", t, k, fields))

    def qentry(self, n):
        """@aa{k, f = "X"}: a quoted value whose body is symbolic over braces / quote / backslash / filler (deeper nesting
        inside quotes than the general value hole affords)"""
        self.lit("@")
        t = (len(self.cs), len(self.cs) + 2)
        self.lit("aa{")
        k = (len(self.cs), len(self.cs) + 1)
        self.lit("k, ")
        fk = (len(self.cs), len(self.cs) + 1)
        self.lit("f = ")
        a = len(self.cs)
        self.cs.append(self.eng.sym_char(f"t{len(self.cs)}", '"'))
        for _ in range(n):
            self.cs.append(self.eng.sym_char(f"t{len(self.cs)}", Q_SIGMA))
        self.cs.append(self.eng.sym_char(f"t{len(self.cs)}", '"'))
        v = (a, len(self.cs))
        self.holes.append(("V", a, len(self.cs)))
        self.lit("}")
        self.expect.append(("Entry", t, k, [(fk, v)]))

    def macroshadow(self, n):
        """@string{x = {S}} + an entry whose braced value LOOKS like a macro expression (x, x#x, "x"#x ...): it is a
        literal as long as it keeps its braces"""
        self.lit("@string{")
        k1 = (len(self.cs), len(self.cs) + 1)
        self.lit("x = ")
        v1 = (len(self.cs), len(self.cs) + 3)
        self.lit("{S}}\n@")
        t = (len(self.cs), len(self.cs) + 2)
        self.lit("aa{")
        k = (len(self.cs), len(self.cs) + 1)
        self.lit("k, ")
        fk = (len(self.cs), len(self.cs) + 1)
        self.lit("f = ")
        a = len(self.cs)
        self.cs.append(self.eng.sym_char(f"t{len(self.cs)}", "{"))
        for _ in range(n):
            self.cs.append(self.eng.sym_char(f"t{len(self.cs)}", 'x#" 1'))
        self.cs.append(self.eng.sym_char(f"t{len(self.cs)}", "}"))
        v = (a, len(self.cs))
        self.holes.append(("V", a, len(self.cs)))
        self.lit("}")
        self.expect.append(("String", k1, v1))
        self.expect.append(("Entry", t, k, [(fk, v)]))

    def atvalue(self, n):
        """@aa{k, f = {X{y}}}: n symbolic characters over '@', line feed, blank, filler in front of a nested group inside a
        braced value ('jane@cs' + line break + '{...}' is text; only '@' + word + blanks/tabs + '{' starts a block)"""
        self.lit("@")
        t = (len(self.cs), len(self.cs) + 2)
        self.lit("aa{")
        k = (len(self.cs), len(self.cs) + 1)
        self.lit("k, ")
        fk = (len(self.cs), len(self.cs) + 1)
        self.lit("f = ")
        a = len(self.cs)
        self.cs.append(self.eng.sym_char(f"t{len(self.cs)}", "{"))
        for _ in range(n):
            self.cs.append(self.eng.sym_char(f"t{len(self.cs)}", "@\n x"))
        for ch in "{y}}":
            self.cs.append(self.eng.sym_char(f"t{len(self.cs)}", ch))
        v = (a, len(self.cs))
        self.holes.append(("V", a, len(self.cs)))
        self.lit("}")
        self.expect.append(("Entry", t, k, [(fk, v)]))

    def resvtype(self, word, n):
        """an ENTRY whose type merely starts with a reserved word: @comment<X>{k, f = {v}}, @string<X>{...}, @preamble<X>{...}
        (biblatex's @commentary is such a type)"""
        self.lit("@")
        t0 = len(self.cs)
        for ch in word:
            self.cs.append(self.eng.sym_char(f"t{len(self.cs)}", ch + ch.upper()))
        for _ in range(n):
            self.cs.append(self.eng.sym_char(f"t{len(self.cs)}", "asS"))
        t = (t0, len(self.cs))
        self.lit("{")
        k = (len(self.cs), len(self.cs) + 1)
        self.lit("k, ")
        fk = (len(self.cs), len(self.cs) + 1)
        self.lit("f = ")
        v = (len(self.cs), len(self.cs) + 3)
        self.lit("{v}}")
        self.expect.append(("Entry", t, k, [(fk, v)]))

    def idfield(self, which):
        """an entry with a FIELD spelled like one of the pseudo keys of Entry's mapping interface (ID / ENTRYTYPE)"""
        self.lit("@")
        t = (len(self.cs), len(self.cs) + 2)
        self.lit("aa{")
        k = self.hole("K", 1, K_SIGMA)
        self.lit(", ")
        fk = (len(self.cs), len(self.cs) + len(which))
        self.lit(which)
        self.lit(" = ")
        v = self.hole("V", 3, V_SIGMA)
        self.lit(", ")
        bk = (len(self.cs), len(self.cs) + 1)
        self.lit("b = ")
        bv = (len(self.cs), len(self.cs) + 3)
        self.lit("{w}}")
        self.expect.append(("Entry", t, k, [(fk, v), (bk, bv)]))

    def glued(self, fl):
        """free text directly followed by a block (no white space in between); the free text may end in backslashes,
        which do not escape an '@'"""
        f = self.hole("F", fl, "x\\%")
        self.lit("@")
        t = (len(self.cs), len(self.cs) + 2)
        self.lit("aa{")
        k = (len(self.cs), len(self.cs) + 1)
        self.lit("k, ")
        fk = (len(self.cs), len(self.cs) + 1)
        self.lit("f = ")
        v = (len(self.cs), len(self.cs) + 3)
        self.lit("{v}}")
        self.expect.append(("ImplicitComment", f))
        self.expect.append(("Entry", t, k, [(fk, v)]))

    def string(self, kl=1, vl=2, wl=1, hw=0):
        self.lit("@")
        self.hole("S", 0, "")
        st = len(self.cs)
        for ch in "string":
            self.cs.append(self.eng.sym_char(f"t{len(self.cs)}", ch + ch.upper()))
        self.hws(hw)
        self.lit("{")
        self.hole("W", wl, W_SIGMA)
        k = self.hole("K", kl, K_SIGMA)
        self.lit(" = ")
        v = self.hole("SV", vl, V_SIGMA)
        self.hole("W", wl, W_SIGMA)
        self.lit("}")
        self.expect.append(("String", k, v))

    def preamble(self, bl=2, hw=0):
        self.lit("@preamble")
        self.hws(hw)
        self.lit("{")
        b = self.hole("B", bl, V_SIGMA)
        self.lit("}")
        self.expect.append(("Preamble", b))

    def comment(self, bl=2, hw=0):
        self.lit("@Comment")
        self.hws(hw)
        self.lit("{")
        b = self.hole("BC", bl, V_SIGMA)
        self.lit("}")
        self.expect.append(("ExplicitComment", b))

    def free(self, fl=2):
        f = self.hole("F", fl, F_SIGMA)
        self.expect.append(("ImplicitComment", f))

    def refchain(self):
        """@string{K1 = {v}} @string{K2 = R2} @x{k, f = R3}: R2/R3 are one symbolic character over {a,b,x}, so a field can
        name a string whose own value is the bare name of another string (resolution is one level deep)"""
        self.lit("@string{")
        k1 = self.hole("K", 1, "ab")
        self.lit(" = {v}}\n@string{")
        k2 = self.hole("K", 1, "ab")
        self.lit(" = ")
        r2 = self.hole("SV", 1, "abx")
        self.lit("}\n@aa{k, f = ")
        r3 = self.hole("V", 1, "abx")
        self.lit("}")
        self.expect.append(("String", k1, None))
        self.expect.append(("String", k2, r2))
        self.expect.append(("Entry", None, None, [(None, r3)]))

    def sep(self, n=1):
        self.hole("W", n, W_SIGMA)
