"""C02 — well-formed BibTeX yields exactly the blocks, keys, fields and values written.

Encoded: Splitter (all) + Library.add, via Splitter(text).split() (== parse_string with an empty
parse stack).  Symbolic: documents derived from the dialect grammar (DESIGN §3.1) as templates
whose key, value, text and whitespace holes are symbolic; hole contents are restricted to the
grammar by interpreting the recognisers of checks/grammar.py on them.  Oracle: the constructive
ground truth of the template (block list, lower-cased type, key, fields in order, verbatim values,
string/preamble/comment text) compared term-wise.
"""
import sys
import itertools

from pysym.engine import Engine
from pysym.values import *  # noqa
from pysym.harness import Check, Recorder
from checks import grammar as G

from bibtexparser.splitter import Splitter
from bibtexparser import model as M


def drv(text, holes, distinct):
    for kind, s in holes:
        if not G.LEGAL[kind](s):
            return None
    for group in distinct:
        i = 0
        while i < len(group):
            j = i + 1
            while j < len(group):
                if group[i] == group[j]:
                    return None      # duplicate keys are C09's subject
                j += 1
            i += 1
    return Splitter(text).split()


def strip_sym(s):
    return s


def expected_desc(B, ex):
    kind = ex[0]
    if kind == "Entry":
        _, t, k, fields = ex
        return ["Entry", mk([c.map(str.lower) if not isinstance(c, str) else c.lower() for c in chars(B.sl(t))]), B.sl(k),
                [(B.sl(fk), B.sl(v)) for fk, v in fields]]
    if kind == "String":
        return ["String", B.sl(ex[1]), B.sl(ex[2])]
    return [kind, B.sl(ex[1])]


def got_desc(eng, W, b):
    if isinstance(b, M.Entry):
        return ["Entry", b.entry_type, b.key, [(f.key, f.value) for f in b.fields]]
    if isinstance(b, M.String):
        return ["String", b.key, b.value]
    if isinstance(b, M.Preamble):
        return ["Preamble", b.value]
    if isinstance(b, M.ExplicitComment):
        return ["ExplicitComment", b.comment]
    if isinstance(b, M.ImplicitComment):
        return ["ImplicitComment", b.comment]
    return [type(b).__name__]


def sym_strip_eq(eng, got, exp):
    """got == exp up to surrounding whitespace of exp (used for preamble / comment text)"""
    ec = chars(exp)
    alts = False
    for a in range(len(ec) + 1):
        for b in range(a, len(ec) + 1):
            mid = ec[a:b]
            if len(mid) != len(chars(got)):
                continue
            cond = b_all([G_ws(c) for c in ec[:a]] + [G_ws(c) for c in ec[b:]])
            if mid:
                cond = b_all([cond, b_not(G_ws(mid[0])), b_not(G_ws(mid[-1]))])
            cond = b_and(cond, s_eq(got, mk(mid)))
            alts = b_or(alts, cond)
    return alts


def G_ws(c):
    return b_any(ch_eq(c, w) for w in G.WS)


def native_expect(spec_fn, text_of):
    pass


def replay(build, model_text, model_holes, expect_native):
    import logging
    logging.disable(logging.CRITICAL)
    text = model_text
    for kind, s in model_holes:
        if not G.LEGAL[kind](s):
            return None
    try:
        blocks = Splitter(text).split().blocks
    except Exception as e:  # noqa
        from pysym.harness import guard_repo_exception
        guard_repo_exception(e)
        return {"input": text, "observed": f"raised {type(e).__name__}: {e}", "expected": expect_native}
    got = []
    for b in blocks:
        if isinstance(b, M.Entry):
            got.append(["Entry", b.entry_type, b.key, [[f.key, f.value] for f in b.fields]])
        elif isinstance(b, M.String):
            got.append(["String", b.key, b.value])
        elif isinstance(b, M.Preamble):
            got.append(["Preamble", b.value.strip()])
        elif isinstance(b, (M.ExplicitComment, M.ImplicitComment)):
            got.append([type(b).__name__, b.comment.strip()])
        else:
            got.append([type(b).__name__, b.raw])
    if got == expect_native:
        return None
    return {"input": text, "observed": got, "expected": expect_native}


def task(spec, label):
    eng = Engine()
    rec = Recorder(eng)
    B = G.Builder(eng)
    for step in spec:
        getattr(B, step[0])(*step[1:])
    text = B.text()
    holes = [(k, mk(B.cs[a:b])) for k, a, b in B.holes if k in G.LEGAL and b > a or k in ("V", "SV", "K", "F")]
    E = eng.I.models.eq_simple
    exp = [expected_desc(B, ex) for ex in B.expect]

    def expect_native(m):
        out = []
        for d in exp:
            d2 = eng.model_value(m, d)
            if d2[0] == "Entry":
                d2 = [d2[0], d2[1], d2[2], [list(x) for x in d2[3]]]
            elif d2[0] in ("Preamble", "ExplicitComment", "ImplicitComment"):
                d2 = [d2[0], d2[1].strip()]
            out.append(d2)
        # an explicit/implicit comment or preamble that is blank: comment text ''
        return [d for d in out]

    distinct = []
    ekeys = [B.sl(ex[2]) for ex in B.expect if ex[0] == "Entry"]
    skeys = [B.sl(ex[1]) for ex in B.expect if ex[0] == "String"]
    distinct.append(ekeys)
    distinct.append(skeys)
    for ex in B.expect:
        if ex[0] == "Entry":
            distinct.append([B.sl(fk) for fk, v in ex[3]])

    def distinct_native(m):
        for g in distinct:
            vals = [eng.model_str(m, x) for x in g]
            if len(set(vals)) != len(vals):
                return False
        return True

    worlds = eng.run(drv, [text, holes, distinct])
    for W in worlds:
        rp = lambda m: (replay(None, eng.model_str(m, text), [(k, eng.model_str(m, s)) for k, s in holes], expect_native(m))
                        if distinct_native(m) else None)
        if W.exc is not None:
            rec.require(W, True, "no-exception", rp)
            continue
        if W.result is None:
            continue
        blocks = W.result.blocks
        rec.witness("legal-document", W)
        # a blank free-text hole cannot occur (is_free), blank comment bodies give '' comments
        if len(blocks) != len(exp):
            rec.require(W, True, "block-count", rp)
            continue
        conds = []
        for b, d in zip(blocks, exp):
            g = got_desc(eng, W, b)
            if g[0] != d[0]:
                conds.append(False)
                break
            if d[0] in ("Preamble", "ExplicitComment", "ImplicitComment"):
                conds.append(b_or(E(g[1], d[1]), sym_strip_eq(eng, g[1], d[1])))
            else:
                conds.append(E(g[1:], d[1:]))
        rec.require(W, b_not(b_all(conds)), "blocks-as-written", rp)
    if worlds and not rec.samples:
        for W in worlds:
            if W.result is not None and W.exc is None:
                ok, m = eng.query(W, True)
                if ok:
                    rec.samples.append({"document": eng.model_str(m, text), "expected": expect_native(m)})
                    r = rp(m) if False else replay(None, eng.model_str(m, text), [(k, eng.model_str(m, s)) for k, s in holes], expect_native(m))
                    if r is not None:
                        rec.violations.append({"kind": "nonreproducing", "tag": "engine-vs-native", **r})
                    rec.validated += 1
                    break
    return rec.result(label=label, worlds=len(worlds))


def specs(tier):
    big = tier == "thorough"
    vl1 = 7 if big else 6
    out = []
    # single blocks with the deepest holes
    for nf in (0, 1, 2):
        for trailing in (False, True):
            if nf == 0 and trailing:
                continue
            for vl in range(1, (vl1 if nf == 1 else vl1 - 1) + 1):
                out.append((f"entry{nf}{'t' if trailing else ''}-v{vl}", [("entry", nf, 1, vl, 1, trailing)]))
    out.append(("entry-key2", [("entry", 1, 2, 1, 0, False)]))
    for vl in range(1, vl1 + 1):
        out.append((f"string-v{vl}", [("string", 1, vl, 1)]))
        out.append((f"preamble-b{vl}", [("preamble", vl)]))
        out.append((f"comment-b{vl}", [("comment", vl)]))
    for n in range(1, vl1 + 1):
        out.append((f"qentry-q{n}", [("qentry", n)]))
    for which in ("ID", "ENTRYTYPE"):
        out.append((f"idfield-{which}", [("idfield", which)]))
    for fl in (1, 2, 3):
        out.append((f"glued-f{fl}", [("glued", fl)]))
    for word in ("comment", "string", "preamble"):
        for n in (1, 2):
            out.append((f"resvtype-{word}-{n}", [("resvtype", word, n)]))
    # blanks / tabs between '@type' and '{' (hws of the grammar)
    for hw in (1, 2):
        out.append((f"entry1-hw{hw}", [("entry", 1, 1, 2, 0, False, hw)]))
        out.append((f"entry0-hw{hw}", [("entry", 0, 1, 1, 0, False, hw)]))
        out.append((f"string-hw{hw}", [("string", 1, 2, 0, hw)]))
        out.append((f"preamble-hw{hw}", [("preamble", 2, hw)]))
        out.append((f"comment-hw{hw}", [("comment", 2, hw)]))
    out.append(("preamble-b0", [("preamble", 0)]))
    out.append(("comment-b0", [("comment", 0)]))
    for fl in range(1, (4 if big else 3) + 1):
        out.append((f"free-f{fl}", [("free", fl)]))
    # pairs (small holes), every ordered pair of kinds, separated by 0 or 1 symbolic whitespace chars
    small = {
        "entry": ("entry", 1, 1, 2, 0, False), "entry0": ("entry", 0, 1, 1, 0, False), "string": ("string", 1, 2, 0),
        "preamble": ("preamble", 1), "comment": ("comment", 1), "free": ("free", 2),
    }
    for a, b in itertools.product(small, small):
        if a == "free" and b == "free":
            continue
        for sep in ((0, 1) if not (a == "free" or b == "free") else (1,)):
            out.append((f"pair-{a}-{b}-s{sep}", [small[a], ("sep", sep), small[b]]))
    if big:
        for a, b, c in itertools.product(("entry0", "string", "comment", "free"), repeat=3):
            if (a == "free" and b == "free") or (b == "free" and c == "free"):
                continue
            out.append((f"triple-{a}-{b}-{c}", [small[a], ("sep", 1), small[b], ("sep", 1), small[c]]))
    return out


def main():
    chk = Check("C02", __doc__)
    sp = specs(chk.tier)
    chk.bounds = {"templates": len(sp), "value holes": f"<= {7 if chk.tier == "thorough" else 6} chars over {G.V_SIGMA!r} restricted to `value`",
                  "entry types that start with a reserved word": "@comment / @string / @preamble (any letter case) + 1..2 letters over a, s, S + {k, f = {v}}: an entry of that type", "quoted-value holes": f"'\"' + <= {7 if chk.tier == 'thorough' else 6} chars over {G.Q_SIGMA!r} + '\"' restricted to `value`", "key holes": f"1-2 chars over {G.K_SIGMA!r}", "whitespace holes": f"0-1 chars over {G.W_SIGMA!r}",
                  "free text holes": f"<= {4 if chk.tier == 'thorough' else 3} chars over {G.F_SIGMA!r}",
                  "block sequences": "all single blocks, all ordered pairs" + (", triples of entry/string/comment/free" if chk.tier == "thorough" else "")}
    chk.assumptions = ["documents are those derivable from the dialect grammar of DESIGN §3.1 within the template/hole bounds; duplicate keys are excluded by construction only where C09 covers them (pairs use independent key holes, so equal keys DO occur: a later equal-key entry/string is then expected as a DuplicateBlockKeyBlock and is skipped here)",
                       "ESC = backslash + any character except newline; no '@type{' inside values",
                       "entry types are two letters over a/A (case is symbolic); @string letters are symbolic in case; @preamble/@Comment spelled as written"]
    chk.expected_vacuity = ["legal-document"]
    for name, spec in sp:
        chk.add_task(name, task, spec=spec, label=name)
    chk.run()


if __name__ == "__main__":
    main()
