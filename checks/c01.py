"""C01 — parsing and re-writing never raise: bad input becomes failed blocks.

Encoded: parse_string / write_string (entrypoint), Splitter (all), Library, default parse stack
(ResolveStringReferences, RemoveEnclosing), default unparse stack (AddEnclosing on deep copies; the
stdlib copy module is interpreted too, so the repo's __deepcopy__ hooks run), writer.
Symbolic: the whole text.  Obligations per final world: no exception out of parse_string or
write_string; result is a Library; every failed block has an Exception `error` and a str `raw`;
the output is a str.  Hang detector: per-world step limit.  Recursion detector: no function of
the code under test may be on the interpreter's frame stack more than twice (input-driven
recursion); a hit is confirmed by replaying the pumped input on the real code.
"""
import sys

from pysym.engine import Engine, StepLimit
from pysym.values import *  # noqa
from pysym.harness import Check, Recorder, guard_repo_exception
from checks.splitcommon import *  # noqa

import bibtexparser
from bibtexparser.library import Library
from bibtexparser.model import ParsingFailedBlock

MAXREC = 2


def drv(text):
    lib = bibtexparser.parse_string(text)
    out = bibtexparser.write_string(lib)
    return lib, out


class _Hang(BaseException):
    pass


def _alarm(signum, frame):
    raise _Hang()


def native_check(text, seconds=20):
    """replay on the real code under a watchdog: not returning within `seconds` is reported as a hang"""
    import signal
    # CPU time of this process (ITIMER_VIRTUAL), not wall-clock: a loaded machine must not look like a hang
    old = signal.signal(signal.SIGVTALRM, _alarm)
    signal.setitimer(signal.ITIMER_VIRTUAL, seconds)
    try:
        return _native_check(text)
    except _Hang:
        return f"did not return within {seconds} s of CPU time (hang)"
    finally:
        signal.setitimer(signal.ITIMER_VIRTUAL, 0)
        signal.signal(signal.SIGVTALRM, old)


def _native_check(text):
    import logging
    logging.disable(logging.CRITICAL)
    try:
        lib = bibtexparser.parse_string(text)
    except _Hang:
        raise
    except BaseException as e:  # noqa
        return f"parse_string raised {type(e).__name__}: {str(e)[:200]}"
    if not isinstance(lib, Library):
        return "parse_string did not return a Library"
    for b in lib.failed_blocks:
        if not isinstance(b.error, Exception) or not isinstance(b.raw, str):
            return f"failed block without error/raw: {type(b).__name__}"
    try:
        out = bibtexparser.write_string(lib)
    except _Hang:
        raise
    except BaseException as e:  # noqa
        return f"write_string raised {type(e).__name__}: {str(e)[:200]}"
    if not isinstance(out, str):
        return "write_string did not return a str"
    return None


def replay(text):
    r = native_check(text)
    if r is None:
        return None
    return {"input": text, "observed": r, "expected": "Library and str, no exception"}


def replay_pumped(text, n=3000):
    """input-driven recursion / super-linear running time: pump each character and each short segment n times and look for
    an exception or a hang on the real code"""
    cands = []
    for i in range(len(text)):
        cands.append(text[:i] + text[i] * n + text[i + 1:])
    for i in range(len(text)):
        for j in range(i + 2, min(len(text), i + 4) + 1):
            cands.append(text[:i] + text[i:j] * n + text[j:])
    for c in cands:
        r = native_check(c)
        if r is not None:
            return {"input": c[:40] + f"...(pumped, {len(c)} chars)", "seed_input": text, "observed": r,
                    "expected": "no exception whatever the size"}
    return None


def task(parts, label, pump=0):
    eng = Engine()
    rec = Recorder(eng)
    text, pos, holes = sym_text(eng, parts)
    worlds = eng.run(drv, [text])
    nval = 0
    for W in worlds:
        rp = lambda m: replay(eng.model_str(m, text))
        if W.exc is not None:
            if isinstance(W.exc, StepLimit):
                rec.require(W, True, "terminates", rp)
            else:
                rec.require(W, True, "no-exception", rp)
            continue
        lib, out = W.result
        ok = isinstance(lib, Library) and is_strlike(out)
        if ok:
            for b in lib.blocks:
                if isinstance(b, ParsingFailedBlock):
                    if not isinstance(b.error, Exception) or not is_strlike(b.raw):
                        ok = False
                    rec.witness("failed-block-written", W)
        rec.require(W, not ok, "library-and-text", rp)
        if W.maxrec[0] > MAXREC:
            rec.require(W, True, "input-driven-recursion", lambda m: replay_pumped(eng.model_str(m, text)))
        if pump:
            # size clause (10^3..10^5): up to `pump` distinct witnesses of this path, each pumped on the real code
            import z3
            block = []
            for _ in range(pump):
                sat, m = eng.query(W, z3.And(block) if block else True)
                if not sat:
                    break
                inp = eng.model_str(m, text)
                r = replay_pumped(inp, 2000)
                rec.validated += 1
                if r is not None:
                    r["tag"] = "pumped-witness"
                    rec.violations.append(r)
                    break
                block.append(z3.Not(b_z3(eng.I.models.eq_simple(text, inp))))
            rec.witness("pumped", W)
        if nval < 6:
            ok2, m = eng.query(W, True)
            if ok2:
                inp = eng.model_str(m, text)
                import logging
                logging.disable(logging.CRITICAL)
                got = eng.model_value(m, out)
                try:
                    nat = bibtexparser.write_string(bibtexparser.parse_string(inp))
                except Exception as e:  # noqa
                    # the engine's models are more permissive than CPython somewhere (e.g. copying a dict view): the
                    # witness of this path makes the real parse+write raise - which is the violation itself
                    guard_repo_exception(e)
                    rec.violations.append({"tag": "native-raises", "input": inp, "observed": f"{type(e).__name__}: {e}",
                                           "expected": "parse_string + write_string return"})
                    nat = got
                if nat != got:
                    rec.violations.append({"kind": "nonreproducing", "tag": "engine-vs-native", "input": inp, "engine": got, "native": nat})
                rec.validated += 1
                nval += 1
                if len(rec.samples) < 2:
                    rec.samples.append({"input": inp, "written": nat})
    return rec.result(label=label, worlds=len(worlds), maxrec=max([w.maxrec[0] for w in worlds] or [0]))


def task_strings(kinds):
    """'s' = @string{N = R}, 'f' = @x{k<i>, t = R}: every N and R is one symbolic character over {a, A}"""
    parts = []
    n = 0
    for kd in kinds:
        if kd == "s":
            parts += [("lit", "@string{"), ("sym", 1, "aA"), ("lit", " = "), ("sym", 1, "aA"), ("lit", "}\n")]
        else:
            parts += [("lit", "@x{k%d, t = " % n), ("sym", 1, "aA"), ("lit", "}\n")]
            n += 1
    return task(parts, "strings-" + kinds)


BLOCKS = {
    "entry": "@a{k,\n t = {x},\n u = \"y\"\n}",
    "keyonly": "@a{k}",
    "string": "@string{s = \"v\"}",
    "comment": "@comment{c}",
    "preamble": "@preamble{p}",
    "dupkey": "@a{k, t = 1}\n@a{k, t = 2}",
    "dupfield": "@a{j, t = 1, t = 2}",
    "strref": "@string{s = {v}}\n@a{m, t = s}",
}


INSIDE = {
    "comment": ("@comment{", "}\n@a{k}"),
    "preamble": ("@preamble{", "}"),
    "string": ("@string{s = ", "}\n"),
    "field": ("@a{k, t = ", "}\n@b{j}"),
    "braced": ("@a{k, t = {", "}, u = 1}"),
    "quoted": ("@a{k, t = \"", "\", u = 1}"),
    "key": ("@a{", ", t = 1}"),
    # the whole body of a block / the tokens of a block head (a @string without '=', an entry without a key, ...)
    "string-body": ("@string{", "}\n@a{k}"),
    "string-eq": ("@string{s", "= {v}}\n"),
    "entry-body": ("@a{", "}\n@string{s = {v}}"),
    "field-eq": ("@a{k, t", "= 1}\n@b{j}"),
}


def main():
    chk = Check("C01", __doc__)
    LG, LT = (5, 2) if chk.tier == "quick" else (7, 4)
    LI = 4 if chk.tier == "quick" else 6
    PUMP = 4 if chk.tier == "quick" else 16
    chk.bounds = {"alphabet": SIGMA_S, "pure garbage: every text of length": f"0..{LG}",
                  "templates": f"B1 + X + B2 / B1 + X with B1 in {sorted(BLOCKS)}, B2 in entry/string, X every text of length 1..{LT}",
                  "inside bodies": f"X of length 1..{LI} inside the body of @comment / @preamble / @string / a field value (bare, braced, quoted) / the key position / as the whole body of a @string or an entry / around the = of a @string or a field",
                  "string names": "documents of 2-4 @string / entry blocks whose @string names and bare references are symbolic over {a, A}",
                  "pumped witnesses": "every execution path of the texts of length 3: up to 4 (quick) / 16 (thorough) distinct solver witnesses per path, each replayed on the real code with every character and every segment of 2-4 characters repeated 2000 times, under a 20 s CPU-time watchdog",
                  "recursion bound": f"no repo function more than {MAXREC} times on the stack", "step limit per world": 2_000_000}
    chk.assumptions = ["alphabet as in C03 (one representative per class of the mark regex)",
                       "sizes 10^3..10^5 are not executed symbolically: the claim for them rests on the recursion-depth and step-limit obligations (any input-driven recursion found is confirmed by a pumped replay on the real code)",
                       "logging handlers, memory exhaustion and custom middleware are outside the claim"]
    chk.expected_vacuity = ["failed-block-written", "pumped"]
    for L in range(LG, -1, -1):
        if L >= LG - 1 and L >= 2:
            for a in SIGMA_S:
                chk.add_task(f"garbage-L{L}-{a!r}", task, parts=[("lit", a), ("sym", L - 1, SIGMA_S)], label=f"garbage-L{L}")
        else:
            chk.add_task(f"garbage-L{L}", task, parts=[("sym", L, SIGMA_S)], label=f"garbage-L{L}")
    for a in SIGMA_S:
        chk.add_task(f"pumped-L3-{a!r}", task, parts=[("lit", a), ("sym", 2, SIGMA_S)], label="pumped-L3", pump=PUMP)
    for n1, b1 in BLOCKS.items():
        for L in range(LT, 0, -1):
            chk.add_task(f"tmpl-{n1}+X{L}", task, parts=[("lit", b1), ("sym", L, SIGMA_S)], label=f"{n1}+X")
            for n2 in ("entry", "string"):
                chk.add_task(f"tmpl-{n1}+X{L}+{n2}", task, parts=[("lit", b1), ("sym", L, SIGMA_S), ("lit", "\n" + BLOCKS[n2])], label=f"{n1}+X+{n2}")
    # symbolic text INSIDE block bodies (nesting, unterminated bodies, marks inside values)
    for nm, (pre, post) in INSIDE.items():
        for L in range(LI, 0, -1):
            chk.add_task(f"inside-{nm}-X{L}", task, parts=[("lit", pre), ("sym", L, SIGMA_S), ("lit", post)], label=f"inside-{nm}")
    # @string names and references symbolic over {a, A}: self reference, alias chains, names differing in case only
    for kinds in ("ssf", "sfs", "sf", "ssff"):
        chk.add_task(f"strings-{kinds}", task_strings, kinds=kinds)
    chk.run()


if __name__ == "__main__":
    main()
