"""C14 — splitting names and merging them back is an inverse pair.

Encoded: parse_single_name_into_parts, NameParts.merge_last_name_first (+ escape_last_slash),
split_multiple_persons_names, SeparateCoAuthors / SplitNameParts / MergeNameParts / MergeCoAuthors
(transform_entry, _transform_field_value), BlockMiddleware.transform/transform_block, Library,
and for the stack clause parse_string / write_string with the middlewares appended / prepended
(Splitter, default stacks, writer).
Symbolic: one name (function pair), two names joined by ' and ' (middleware list pair), and a name
placed in '@a{k, author = {NAME}}' (whole stack).
Preconditions (evaluated on the symbolic result): every name parses, `last` is non-empty, no word
ends in an odd number of backslashes.  Obligation: re-split parts equal the first parts.
"""
import sys

from pysym.engine import Engine
from pysym.values import *  # noqa
from pysym.harness import Check, Recorder

import bibtexparser
from bibtexparser.middlewares import names as N
from bibtexparser.model import Entry, Field
from bibtexparser.library import Library

SIGMA = "Ab ,~{}\\\x0b"
SIGMA2 = "Ab ,{}\\nd"


def tup(p):
    return (p.first, p.von, p.last, p.jr)


def drv_fn(name):
    try:
        p = N.parse_single_name_into_parts(name)
    except N.InvalidNameError:
        return None
    merged = p.merge_last_name_first
    try:
        p2 = N.parse_single_name_into_parts(merged)
    except N.InvalidNameError:
        return (tup(p), merged, None)
    return (tup(p), merged, tup(p2))


def split_all(s):
    lib = Library([Entry("article", "k", [Field("author", s)])])
    lib = N.SeparateCoAuthors(True).transform(lib)
    lib = N.SplitNameParts(True).transform(lib)
    return lib


def drv_mw(s):
    lib = split_all(s)
    b = lib.blocks[0]
    if not isinstance(b, Entry):
        return None
    parts1 = [tup(p) for p in b.fields[0].value]
    lib = N.MergeNameParts("last", True).transform(lib)
    lib = N.MergeCoAuthors(True).transform(lib)
    merged = lib.blocks[0].fields[0].value
    lib2 = split_all(merged)
    b2 = lib2.blocks[0]
    if not isinstance(b2, Entry):
        return (parts1, merged, None)
    return (parts1, merged, [tup(p) for p in b2.fields[0].value])


def drv_mw_fields(s):
    """all four middlewares with a non-default name_fields: the name sits in 'bookauthor', 'author' is plain text"""
    nf = ("bookauthor",)
    mk_lib = lambda v: Library([Entry("article", "k", [Field("author", "x and y"), Field("bookauthor", v)])])
    split = lambda lib: N.SplitNameParts(True, nf).transform(N.SeparateCoAuthors(True, nf).transform(lib))
    lib = split(mk_lib(s))
    b = lib.blocks[0]
    if not isinstance(b, Entry):
        return None
    if b.fields[0].value != "x and y":
        return ("untouched-field-changed", b.fields[0].value, None)
    parts1 = [tup(p) for p in b.fields[1].value]
    lib = N.MergeCoAuthors(True, nf).transform(N.MergeNameParts("last", True, nf).transform(lib))
    merged = lib.blocks[0].fields[1].value
    lib2 = split(mk_lib(merged))
    b2 = lib2.blocks[0]
    if not isinstance(b2, Entry):
        return (parts1, merged, None)
    return (parts1, merged, [tup(p) for p in b2.fields[1].value])


def drv_mw_three(s):
    """three name fields in an order that is a rotation of the default name_fields (author, editor, translator): every
    field keeps its own names through the four middlewares; the name under test sits in 'editor'"""
    order = ("editor", "translator", "author")
    mk_lib = lambda vals: Library([Entry("article", "k", [Field(k, v) for k, v in zip(order, vals)])])
    split = lambda lib: N.SplitNameParts(True).transform(N.SeparateCoAuthors(True).transform(lib))
    lib = split(mk_lib((s, "Tt Uu", "Aa Bb")))
    b = lib.blocks[0]
    if not isinstance(b, Entry):
        return None
    vals = [f.value for f in b.fields]
    p1 = [tup(p) for v in vals for p in v]
    fixed_ok = ([tup(p) for p in vals[1]] == [(["Tt"], [], ["Uu"], [])] and [tup(p) for p in vals[2]] == [(["Aa"], [], ["Bb"], [])]
                and [f.key for f in b.fields] == list(order))
    lib = N.MergeCoAuthors(True).transform(N.MergeNameParts("last", True).transform(lib))
    merged = [f.value for f in lib.blocks[0].fields]
    if not fixed_ok or merged[1:] != ["Uu, Tt", "Bb, Aa"]:
        return (p1, merged, None)
    lib2 = split(mk_lib(merged))
    b2 = lib2.blocks[0]
    if not isinstance(b2, Entry):
        return (p1, merged, None)
    return (p1, merged, [tup(p) for f in b2.fields for p in f.value])


def drv_stack(doc):
    lib = bibtexparser.parse_string(doc, append_middleware=[N.SeparateCoAuthors(True), N.SplitNameParts(True)])
    if len(lib.blocks) != 1 or not isinstance(lib.blocks[0], Entry):
        return None
    e = lib.blocks[0]
    if len(e.fields) != 1 or not isinstance(e.fields[0].value, list):
        return None
    parts1 = [tup(p) for p in e.fields[0].value]
    inverse = [N.MergeNameParts("last", False), N.MergeCoAuthors(False)]
    bibtexparser.write_string(lib, prepend_middleware=inverse)
    # the document that counts is the one written by a SECOND use of the same (copy-mode) instances on the same library
    text = bibtexparser.write_string(lib, prepend_middleware=inverse)
    lib2 = bibtexparser.parse_string(text, append_middleware=[N.SeparateCoAuthors(True), N.SplitNameParts(True)])
    if len(lib2.blocks) != 1 or not isinstance(lib2.blocks[0], Entry) or len(lib2.blocks[0].fields) != 1 \
            or not isinstance(lib2.blocks[0].fields[0].value, list):
        return (parts1, text, None)
    return (parts1, text, [tup(p) for p in lib2.blocks[0].fields[0].value])


# ------------------------------------------------------------------ preconditions on symbolic results
def odd_backslashes(w):
    cs = chars(w)
    alts = False
    for k in range(1, len(cs) + 1, 2):
        tail = b_all(ch_eq(c, "\\") for c in cs[len(cs) - k:])
        if k < len(cs):
            tail = b_and(tail, b_not(ch_eq(cs[len(cs) - k - 1], "\\")))
        alts = b_or(alts, tail)
    return alts


def pre_ok(parts_list):
    ok = True
    for p in parts_list:
        if len(p[2]) == 0:
            return False
        for part in p:
            for w in part:
                ok = b_and(ok, b_not(odd_backslashes(w)))
    return ok


def n_odd(w):
    return (len(w) - len(w.rstrip("\\"))) % 2 == 1


def native_pre(parts_list):
    return all(len(p[2]) > 0 and not any(n_odd(w) for part in p for w in part) for p in parts_list)


def mk_replay(drv, wrap):
    def replay(inp):
        import logging
        logging.disable(logging.CRITICAL)
        try:
            r = drv(wrap(inp))
        except Exception as e:  # noqa
            from pysym.harness import guard_repo_exception
            guard_repo_exception(e)
            return {"input": inp, "observed": f"raised {type(e).__name__}: {e}", "expected": "round trip"}
        if r is None:
            return None
        p1, merged, p2 = r
        p1l = [p1] if isinstance(p1, tuple) else p1
        if not native_pre(p1l):
            return None
        if p2 == p1:
            return None
        return {"input": inp, "observed": {"parts": p1, "merged": merged, "resplit": p2}, "expected": "resplit == parts"}
    return replay


def run_task(drv, s, eng, wrap_sym, replay, single):
    rec = Recorder(eng)
    worlds = eng.run(drv, [wrap_sym(s)])
    E = eng.I.models.eq_simple
    for W in worlds:
        rp = lambda m: replay(eng.model_str(m, s))
        if W.exc is not None:
            rec.require(W, True, "no-exception", rp)
            continue
        if W.result is None:
            continue
        p1, merged, p2 = W.result
        pl = [p1] if single else p1
        pre = pre_ok(pl)
        if pre is False:
            continue
        if p2 is None:
            rec.require(W, pre, "reparse-invalid", rp)
            continue
        rec.require(W, b_and(pre, b_not(E(p1, p2))), "roundtrip", rp)
        if any(len(p[1]) > 0 for p in pl):
            rec.witness("von-nonempty-roundtrip", W, pre)
        if any(len(p[0]) > 0 and len(p[3]) > 0 for p in pl):
            rec.witness("jr-and-first", W, pre)
        if len(pl) >= 2:
            rec.witness("two-persons", W, pre)
        if len(rec.samples) < 2:
            ok, m = eng.query(W, pre)
            if ok:
                rec.samples.append({"input": eng.model_str(m, s), "merged": eng.model_value(m, merged)})
                rec.validated += 1
    return rec.result(worlds=len(worlds))


def sym(eng, L, sigma, prefix):
    return mk([eng.sym_char(f"c{i}", prefix[i] if i < len(prefix) else sigma) for i in range(L)])


def task_fn(L, prefix=""):
    eng = Engine()
    s = sym(eng, L, SIGMA, prefix)
    return run_task(drv_fn, s, eng, lambda x: x, mk_replay(drv_fn, lambda x: x), True)


def task_mw(L1, L2, prefix=""):
    eng = Engine()
    a = sym(eng, L1, SIGMA2, prefix)
    b = mk([eng.sym_char(f"d{i}", SIGMA2) for i in range(L2)])
    s = mk(chars(a) + tuple(" and ") + chars(b))
    return run_task(drv_mw, s, eng, lambda x: x, mk_replay(drv_mw, lambda x: x), False)


def task_stack_group(n, tail):
    """whole stack, a brace-protected word holding line ends / blanks: '{' + n characters over CR, LF, blank, letter + '}'"""
    eng = Engine()
    cs = (eng.sym_char("g0", "{"),) + tuple(eng.sym_char(f"g{i + 1}", "\r\n A") for i in range(n)) + (eng.sym_char("g9", "}"),)
    if tail:
        cs += tuple(eng.sym_char(f"t{i}", c) for i, c in enumerate(" and b A"))
    s = mk(cs)
    wrap = lambda x: mk(tuple(PRE) + chars(x) + tuple(POST))
    return run_task(drv_stack, s, eng, wrap, mk_replay(drv_stack, lambda x: PRE + x + POST), False)


def task_words(seps, via):
    """word-structured names: k one-letter words (upper / lower case decides von vs. last) joined by ' ' or ', ' — reaches the
    multi-word von / last / jr / first parts that free strings of the same budget do not (e.g. 'b, b b, A')"""
    eng = Engine()
    cs = ()
    for i in range(len(seps) + 1):
        cs += (eng.sym_char(f"w{i}", "Ab"),)
        if i < len(seps):
            cs += tuple(seps[i])
    s = mk(cs)
    if via == "fn":
        return run_task(drv_fn, s, eng, lambda x: x, mk_replay(drv_fn, lambda x: x), True)
    wrap = lambda x: mk(tuple(PRE) + chars(x) + tuple(POST))
    return run_task(drv_stack, s, eng, wrap, mk_replay(drv_stack, lambda x: PRE + x + POST), False)


def task_mw_fields(L):
    eng = Engine()
    s = sym(eng, L, SIGMA2, "")
    return run_task(drv_mw_fields, s, eng, lambda x: x, mk_replay(drv_mw_fields, lambda x: x), False)


def task_mw_three(L):
    eng = Engine()
    s = sym(eng, L, SIGMA2, "")
    return run_task(drv_mw_three, s, eng, lambda x: x, mk_replay(drv_mw_three, lambda x: x), False)


PRE, POST = "@a{k, author = {", "}}"


def task_stack(L, prefix=""):
    eng = Engine()
    s = sym(eng, L, SIGMA, prefix)
    wrap = lambda x: mk(tuple(PRE) + chars(x) + tuple(POST))
    return run_task(drv_stack, s, eng, wrap, mk_replay(drv_stack, lambda x: PRE + x + POST), False)


def main():
    chk = Check("C14", __doc__)
    LF, LM, LS = (7, 3, 4) if chk.tier == "quick" else (9, 4, 6)
    chk.bounds = {"function pair: every name of length": f"0..{LF} over {SIGMA!r}",
                  "middleware list pair: NAME1 ' and ' NAME2 with each length": f"0..{LM} over {SIGMA2!r}",
                  "whole stack '@a{k, author = {NAME}}': NAME length": f"0..{LS} over {SIGMA!r}"}
    chk.assumptions = ["preconditions of the statement: names parse, last non-empty, no word ends in an odd number of backslashes",
                       "alphabets / lengths above are the bound; everything else is outside the claim",
                       "stack clause: only documents that parse to exactly one entry with one author field are considered (a NAME that unbalances the braces of the template is out of scope)"]
    chk.expected_vacuity = ["von-nonempty-roundtrip", "jr-and-first", "two-persons"]
    for L in range(LF, -1, -1):
        if L >= LF - 1 and L >= 2:
            for a in SIGMA:
                chk.add_task(f"fn-L{L}-{a!r}", task_fn, L=L, prefix=a)
        else:
            chk.add_task(f"fn-L{L}", task_fn, L=L)
    for L1 in range(LM, 0, -1):
        for L2 in range(LM, 0, -1):
            if L1 == LM:
                for a in SIGMA2:
                    chk.add_task(f"mw-{L1}+{L2}-{a!r}", task_mw, L1=L1, L2=L2, prefix=a)
            else:
                chk.add_task(f"mw-{L1}+{L2}", task_mw, L1=L1, L2=L2)
    for L in range(LS, -1, -1):
        if L >= LS - 1 and L >= 2:
            for a in SIGMA:
                chk.add_task(f"stack-L{L}-{a!r}", task_stack, L=L, prefix=a)
        else:
            chk.add_task(f"stack-L{L}", task_stack, L=L)
    chk.bounds["non-default name_fields"] = f"the four middlewares built with name_fields=('bookauthor',): names of length 1..4 over {SIGMA2!r} in that field, 'author' holding plain text"
    for L in (4, 3, 2, 1):
        chk.add_task(f"fields-L{L}", task_mw_fields, L=L)
    chk.bounds["three name fields"] = f"an entry with editor (the name under test, length 1..4 over {SIGMA2!r}), translator and author in that order through the four middlewares: every field keeps its own names"
    for L in (4, 3, 2, 1):
        chk.add_task(f"three-L{L}", task_mw_three, L=L)
    chk.bounds["whole stack, protected line ends"] = "NAME = '{' + 1..3 characters over CR, LF, blank, 'A' + '}' (alone, and followed by ' and b A')"
    for n in (3, 2, 1):
        for tail in (False, True):
            chk.add_task(f"stack-group-{n}-{int(tail)}", task_stack_group, n=n, tail=tail)
    import itertools
    KW = 5 if chk.tier == "quick" else 6
    chk.bounds["word-structured names"] = f"2..{KW} one-letter words over {{A,b}} joined by every combination of ' ' and ', ' (function pair; up to 4 words through the whole stack)"
    for k in range(KW, 1, -1):
        for seps in itertools.product((" ", ", "), repeat=k - 1):
            if sum(1 for x in seps if x == ", ") > 2:
                continue
            nm = "".join("s" if x == " " else "c" for x in seps)
            chk.add_task(f"words-fn-{nm}", task_words, seps=seps, via="fn")
            if k <= 4:
                chk.add_task(f"words-stack-{nm}", task_words, seps=seps, via="stack")
    chk.run()


if __name__ == "__main__":
    main()
