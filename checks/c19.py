"""C19 — an entry behaves like an insertion-ordered mapping of its fields; equality is structural.

Encoded: all of Entry (set_field, pop, get, __contains__, __getitem__, __setitem__, __delitem__, items,
fields, fields_dict), Field, Block.__eq__, Field.__eq__, the other block constructors; copy.copy /
copy.deepcopy are the interpreted stdlib functions.
Symbolic: the keys of the pre-state (pairwise distinct, assumed), the key argument of every
operation, and for equality every string attribute / start line of both operands.
"""
import sys
import copy
import itertools
import z3

from pysym.engine import Engine
from pysym.values import *  # noqa
from pysym.harness import Check, Recorder

from bibtexparser.model import Entry, Field, String, Preamble, ExplicitComment, ImplicitComment
from bibtexparser.splitter import Splitter

KS = "aAbD"      # "D": a one-letter key that is a substring of the reserved name ID
OPS = ("set_field", "setitem", "pop", "popd", "del", "get", "getd", "in", "getitem")


def drv_map(keys0, ops, parsed=False):
    fields = []
    d = {}
    i = 0
    for k in keys0:
        # the initial values are those the operations write ("t0", ...): a write may re-assign the value a key has
        fields.append(Field(k, "t" + str(i)))
        d[k] = "t" + str(i)
        i += 1
    other = None
    if parsed:
        # the entry under test comes out of the splitter, next to a second field-less entry that must stay as it is
        blocks = Splitter("@article{ek}\n@book{other}\n").split().blocks
        e, other = blocks[0], blocks[1]
    else:
        e = Entry("article", "ek", fields)
    results = []
    snaps = []
    held = []      # (field object handed out by get, its key and value at that time)
    for op, k, tag in ops:
        if op == "set_field":
            nf = Field(k, tag, 100)
            e.set_field(nf)
            d[k] = tag
            # like d[k] = v; d[k] is v: the field held afterwards is the one that was handed in
            results.append((e.fields_dict[k] is nf, True))
        elif op == "setitem":
            e[k] = tag
            d[k] = tag
        elif op == "pop":
            r = e.pop(k)
            results.append((None if r is None else r.value, d.pop(k, None)))
        elif op == "popd":
            r = e.pop(k, "dflt")
            results.append(("dflt" if r == "dflt" else r.value, d.pop(k, "dflt")))
        elif op == "del":
            if k in d:
                del e[k]
                del d[k]
        elif op == "get":
            r = e.get(k)
            if r is not None:
                held.append((r, r.key, r.value))
            results.append((None if r is None else r.value, d.get(k)))
        elif op == "getd":
            r = e.get(k, "dflt")
            results.append(("dflt" if r == "dflt" else r.value, d.get(k, "dflt")))
        elif op == "in":
            results.append((k in e, k in d))
        elif op == "getitem":
            try:
                a = e[k]
            except KeyError:
                a = "KEYERROR"
            try:
                b = d[k]
            except KeyError:
                b = "KEYERROR"
            results.append((a, b))
        fd = e.fields_dict
        snaps.append(([(f.key, f.value) for f in e.fields], [(kk, fd[kk].value) for kk in fd], e.items(), list(d.items())))
    unchanged = [(f.key, f.value, k0, v0) for f, k0, v0 in held]
    if parsed:
        fresh = Splitter("@misc{later}").split().blocks[0]
        unchanged.append((len(other.fields), len(fresh.fields), 0, 0))
    return results, snaps, e["ENTRYTYPE"], e["ID"], unchanged


def check_map(res, E):
    results, snaps, et, eid, unchanged = res
    conds = [E(et, "article"), E(eid, "ek")]
    for k1, v1, k0, v0 in unchanged:
        # like a value obtained from a dict: later assignments do not change what was handed out
        conds.append(b_and(E(k1, k0), E(v1, v0)))
    for a, b in results:
        if isinstance(a, (bool, SBool)) or isinstance(b, (bool, SBool)):
            conds.append(E(a, b))
        else:
            conds.append(E(a, b) if (a is None) == (b is None) else False)
    for fl, fdl, items, dl in snaps:
        conds.append(E(fl, dl))
        conds.append(E(fdl, dl))
        conds.append(E(items, [("ENTRYTYPE", "article"), ("ID", "ek")] + dl))
    return conds


def replay_map(keys0, ops, parsed=False):
    if len(set(keys0)) != len(keys0):
        return None
    try:
        res = drv_map(keys0, ops, parsed)
    except Exception as ex:  # noqa
        from pysym.harness import guard_repo_exception
        guard_repo_exception(ex)
        return {"input": [keys0, ops], "observed": f"raised {type(ex).__name__}: {ex}", "expected": "dict-like behaviour"}
    if all(bool(c) for c in check_map(res, lambda a, b: a == b)):
        return None
    return {"input": [keys0, ops], "observed": {"results": res[0], "final": res[1][-1] if res[1] else None}, "expected": "as an insertion-ordered dict"}


def task_map(n0, opnames, parsed=False):
    eng = Engine()
    rec = Recorder(eng)
    keys0 = [eng.sym_str(f"k{i}_", 1, KS) for i in range(n0)]
    # the value written by every second operation is falsy ('' - or the int 0): a value like any other for a mapping
    ops = [(op, eng.sym_str(f"a{j}_", 1, KS), ("t" + str(j)) if j % 2 == 0 else ("" if j % 4 == 1 else 0)) for j, op in enumerate(opnames)]
    E = eng.I.models.eq_simple
    distinct = b_all(b_not(E(a, b)) for a, b in itertools.combinations(keys0, 2))
    worlds = eng.run(drv_map, [keys0, ops, parsed], guard=distinct)
    for W in worlds:
        rp = lambda m: replay_map(eng.model_value(m, keys0), [tuple(o) for o in eng.model_value(m, [list(o) for o in ops])], parsed)
        if W.exc is not None:
            rec.require(W, b_z3(distinct) if not isinstance(distinct, bool) else distinct, "no-exception", rp)
            continue
        conds = check_map(W.result, E)
        rec.require(W, b_and(distinct, b_not(b_all(conds))), "mapping", rp)
    if worlds and not rec.samples:
        ok, m = eng.query(worlds[0], distinct)
        if ok:
            rec.samples.append({"pre-state keys": eng.model_value(m, keys0), "ops": eng.model_value(m, [list(o) for o in ops])})
            rec.validated += 1
    rec.vacuity["mapping-run"] = bool(worlds)
    return rec.result(worlds=len(worlds))


# ------------------------------------------------------------------ equality
def make(kind, s, n, eng=None):
    """object of the given kind from symbolic strings s[0..] and start line n"""
    if kind == "Field":
        return Field(s[0], s[1], n)
    if kind == "String":
        return String(s[0], s[1], n, s[2])
    if kind == "Preamble":
        return Preamble(s[0], n, s[2])
    if kind == "ExplicitComment":
        return ExplicitComment(s[0], n, s[2])
    if kind == "ImplicitComment":
        return ImplicitComment(s[0], n, s[2])
    if kind == "Entry":
        return Entry(s[0], s[1], [Field(s[3], s[4], n)], n, s[2])
    if kind == "Entry2":
        return Entry(s[0], s[1], [Field(s[3], s[4], n), Field(s[4], s[3], n)], n, s[2])
    raise ValueError(kind)


NATTR = 5


def observe(b):
    """read-only use of one operand: equality is a function of content, not of what has been looked at before"""
    seen = [b.start_line]
    if isinstance(b, Field):
        seen.append((b.key, b.value))
        return seen
    seen.append(b.raw)
    seen.append(len(b.parser_metadata))
    seen.append(b.get_parser_metadata("zz"))
    if isinstance(b, Entry):
        seen.append(len(b.fields_dict))
        seen.append(b.get("zz"))
        seen.append("zz" in b)
        seen.append(len(b.items()))
        seen.append(b.entry_type)
    return seen


def drv_eq(ka, sa, na, kb, sb, nb, meta_b, read_b=False):
    a = make(ka, sa, na)
    b = make(kb, sb, nb)
    if meta_b and not isinstance(b, Field):
        b.parser_metadata["m"] = sb[0]
    if meta_b == "both" and not isinstance(a, Field):
        # both operands carry (equal or different) metadata: copies must carry it too
        a.parser_metadata["m"] = sa[0]
    if read_b:
        observe(b)
    c = copy.copy(a)
    dc = copy.deepcopy(a)
    return a == b, b == a, a == c, a == dc, c is not a, dc is not a, a != b


USED = {"Field": (0, 1), "String": (0, 1, 2), "Preamble": (0, 2), "ExplicitComment": (0, 2), "ImplicitComment": (0, 2),
        "Entry": (0, 1, 2, 3, 4), "Entry2": (0, 1, 2, 3, 4)}


def same_class(ka, kb):
    base = lambda k: "Entry" if k.startswith("Entry") else k
    return base(ka) == base(kb)


def replay_eq(ka, sa, na, kb, sb, nb, meta_b, read_b=False):
    try:
        r = drv_eq(ka, sa, na, kb, sb, nb, meta_b, read_b)
    except Exception as ex:  # noqa
        from pysym.harness import guard_repo_exception
        guard_repo_exception(ex)
        return {"input": [ka, sa, na, kb, sb, nb, meta_b, read_b], "observed": f"raised {type(ex).__name__}: {ex}", "expected": "booleans"}
    exp = (same_class(ka, kb) and ka == kb and all(sa[i] == sb[i] for i in USED[ka]) and na == nb and not (meta_b is True and ka != "Field"))
    if r[0] == exp and r[1] == exp and r[2] and r[3] and r[4] and r[5] and r[6] == (not exp):
        return None
    return {"input": [ka, sa, na, kb, sb, nb, meta_b, read_b], "observed": list(r), "expected": f"a==b is {exp}; copies equal"}


def task_eq(ka, kb, meta_b, read_b=False):
    eng = Engine()
    rec = Recorder(eng)
    sa = [eng.sym_str(f"a{i}_", 1, "xy") for i in range(NATTR)]
    sb = [eng.sym_str(f"b{i}_", 1, "xy") for i in range(NATTR)]
    na, nb = eng.sym_int("na", 0, 1), eng.sym_int("nb", 0, 1)
    E = eng.I.models.eq_simple
    worlds = eng.run(drv_eq, [ka, sa, na, kb, sb, nb, meta_b, read_b])
    if same_class(ka, kb) and ka == kb and not (meta_b is True and ka != "Field"):
        exp = b_all([E(sa[i], sb[i]) for i in USED[ka]] + [i_cmp("==", na, nb)])
    else:
        exp = False
    for W in worlds:
        rp = lambda m: replay_eq(ka, eng.model_value(m, sa), eng.model_value(m, na), kb, eng.model_value(m, sb), eng.model_value(m, nb), meta_b, read_b)
        if W.exc is not None:
            rec.require(W, True, "eq-no-exception", rp)
            continue
        ab, ba, ac, adc, c_new, dc_new, ne = W.result
        bad = False
        for got in (ab, ba):
            bad = b_or(bad, b_not(E(got, exp)) if isinstance(got, (bool, SBool)) else True)
        bad = b_or(bad, b_not(E(ne, b_not(exp))) if isinstance(ne, (bool, SBool)) else True)
        for got in (ac, adc, c_new, dc_new):
            bad = b_or(bad, b_not(got) if isinstance(got, (bool, SBool)) else True)
        rec.require(W, bad, "structural-equality", rp)
        if ab is True:
            rec.witness("equal-pair", W)
        if ab is False:
            rec.witness("unequal-pair", W)
    return rec.result(worlds=len(worlds))


def main():
    chk = Check("C19", __doc__)
    depth = 2 if chk.tier == "quick" else 3
    chk.bounds = {"parsed entries": "the same operations on a field-less entry parsed by the splitter next to a second one (which must stay field-less, as must an entry parsed afterwards)", "mapping": f"pre-state of 0..3 fields with distinct 1-char keys over {KS!r}; every sequence of 1..{depth} operations (length 3: pre-states of 0..2 fields) from {OPS} with symbolic key arguments",
                  "equality": "all ordered pairs of kinds from Field/String/Preamble/ExplicitComment/ImplicitComment/Entry(1 field)/Entry(2 fields); every string attribute a symbolic char over {x,y}; start lines symbolic 0..1; with and without extra metadata on one or on both operands; with and without read-only use of one operand (start_line, raw, parser_metadata, get_parser_metadata, fields_dict, get, in, items) before the comparison"}
    chk.assumptions = ["field keys are distinct and not ENTRYTYPE/ID (statement)", "deleting an absent key is excluded (the statement does not fix whether a silent no-op is a 'result')",
                       "longer keys / deeper histories are outside the claim; the oracle dictionary is the engine's model of dict (keys compared by symbolic string equality, insertion order kept)"]
    chk.expected_vacuity = ["mapping-run", "equal-pair", "unequal-pair"]
    for n0 in (3, 2, 1, 0):
        for d in range(depth, 0, -1):
            for opnames in itertools.product(OPS, repeat=d):
                if d == 3 and n0 not in (2, 1, 0):
                    continue
                chk.add_task(f"map-n{n0}-" + "-".join(opnames), task_map, n0=n0, opnames=opnames)
    # entries that come out of the splitter (field-less '@article{ek}' beside '@book{other}'): other entries are not touched
    for d in range(min(depth, 2), 0, -1):
        for opnames in itertools.product(("set_field", "setitem", "pop", "get", "in"), repeat=d):
            chk.add_task("parsed-" + "-".join(opnames), task_map, n0=0, opnames=opnames, parsed=True)
    kinds = list(USED)
    for ka, kb in itertools.product(kinds, kinds):
        if ka == kb or (ka, kb) in (("ExplicitComment", "ImplicitComment"), ("ImplicitComment", "ExplicitComment"), ("Entry", "Entry2"), ("Entry2", "Entry"), ("String", "Preamble"), ("Field", "String")):
            for meta in (False, True):
                if meta and ka != kb:
                    continue
                chk.add_task(f"eq-{ka}-{kb}-m{int(meta)}", task_eq, ka=ka, kb=kb, meta_b=meta)
                if ka == kb:
                    chk.add_task(f"eq-{ka}-{kb}-m{int(meta)}-read", task_eq, ka=ka, kb=kb, meta_b=meta, read_b=True)
                    if meta and ka != "Field":
                        chk.add_task(f"eq-{ka}-{kb}-mboth", task_eq, ka=ka, kb=kb, meta_b="both")
    chk.run()


if __name__ == "__main__":
    main()
