"""C09 — duplicate keys are never merged or dropped: first wins, the rest are flagged.

Encoded: parse_string (Splitter, Library.add/_add_to_dicts/_cast_to_duplicate, DuplicateBlockKeyBlock,
DuplicateFieldKeyBlock, default parse stack).  Symbolic: every entry key, string key and field key
is a 1-character hole over {a, b}, so every collision pattern (any multiplicity and interleaving) is
chosen by the solver.  Oracle: a transcription of the statement, interpreted on the same key terms.
"""
import sys
import itertools

from pysym.engine import Engine
from pysym.values import *  # noqa
from pysym.harness import Check, Recorder
from pysym.models import SSet

import bibtexparser
from bibtexparser import model as M

KS = "ab"


def oracle(spec):
    live_e = []
    live_s = []
    out = []
    idx = 0
    for b in spec:
        if b[0] == "entry":
            fk = b[2]
            dups = []
            i = 0
            while i < len(fk):
                j = 0
                while j < i:
                    if fk[i] == fk[j]:
                        seen = False
                        for d in dups:
                            if d == fk[i]:
                                seen = True
                        if not seen:
                            dups.append(fk[i])
                        break
                    j += 1
                i += 1
            if len(dups) > 0:
                out.append(("dupfield", dups))
            else:
                prev = -1
                for k, p in live_e:
                    if prev < 0 and k == b[1]:
                        prev = p
                if prev >= 0:
                    out.append(("dupkey", prev))
                else:
                    live_e.append((b[1], idx))
                    out.append(("live",))
        elif b[0] == "string":
            prev = -1
            for k, p in live_s:
                if prev < 0 and k == b[1]:
                    prev = p
            if prev >= 0:
                out.append(("dupkey", prev))
            else:
                live_s.append((b[1], idx))
                out.append(("live",))
        else:
            out.append(("other",))
        idx += 1
    return out


def drv(text, spec, copy_mode=False, cut=None):
    if cut is not None:
        # the document arrives in two parts that are parsed into the SAME library: the statement holds for what the
        # library ends up with (first block of a key = the live one, wherever it came from)
        lib = bibtexparser.parse_string(mk(chars(text)[:cut]))
        lib = bibtexparser.parse_string(mk(chars(text)[cut + 1:]), library=lib)
        return lib, oracle(spec)
    if copy_mode:
        from bibtexparser.middlewares import ResolveStringReferencesMiddleware, RemoveEnclosingMiddleware
        lib = bibtexparser.parse_string(text, parse_stack=[ResolveStringReferencesMiddleware(allow_inplace_modification=False),
                                                           RemoveEnclosingMiddleware(allow_inplace_modification=False)])
    else:
        lib = bibtexparser.parse_string(text)
    return lib, oracle(spec)


SAMEVALS = [False]   # tasks may switch this on: every field value is the same text, all fields on one line
CUTS = []      # character offsets of the line feeds between the blocks of the document built last


def build(eng, shape):
    """shape: list of ('entry', nfields) | ('string',) | ('comment',)"""
    cs = []
    spec = []

    def lit(s):
        for ch in s:
            cs.append(eng.sym_char(f"t{len(cs)}", ch))

    def hole():
        c = eng.sym_char(f"t{len(cs)}", KS)
        cs.append(c)
        return mk([c])

    cuts = []
    for n, sh in enumerate(shape):
        if n:
            cuts.append(len(cs))
            lit("\n")
        if sh[0] == "entry":
            lit("@x{")
            k = hole()
            fks = []
            for i in range(sh[1]):
                if SAMEVALS[0]:
                    lit(", ")
                    fks.append(hole())
                    lit(" = {v}")
                    continue
                lit((", ", ",\n  ", ",")[i % 3])      # the layout around a repeated key must not matter
                fks.append(hole())
                lit((" = {v%d}", "={v%d}", "\t=  {v%d}")[i % 3] % i)
            lit("}")     # an entry without fields is written '@x{K}' (no comma)
            spec.append(("entry", k, fks))
        elif sh[0] == "string":
            lit("@string{")
            k = hole()
            lit(" = {s}}")
            spec.append(("string", k))
        else:
            lit("@comment{c}")
            spec.append(("comment",))
    CUTS[:] = cuts
    return mk(cs), spec


def same_block(a, b, E):
    """structural equality of two entries / strings (copy-mode stacks hand out equal copies, not the same object)"""
    if type(a) is not type(b):
        return False
    if isinstance(a, M.Entry):
        return b_all([E(a.key, b.key), E(a.entry_type, b.entry_type), E([(f.key, f.value) for f in a.fields], [(f.key, f.value) for f in b.fields])])
    if isinstance(a, M.String):
        return b_and(E(a.key, b.key), E(a.value, b.value))
    return a is b


def verdict(lib, spec, exp, E, truth, copy_mode=False):
    """returns list of (condition-that-must-hold) ; conditions are bool/SBool"""
    conds = []
    blocks = lib.blocks
    if len(blocks) != len(spec):
        return [False]
    n_live_e = n_live_s = 0
    for idx, (sp, ex, b) in enumerate(zip(spec, exp, blocks)):
        if sp[0] == "comment":
            conds.append(isinstance(b, M.ExplicitComment))
            continue
        if ex[0] == "live":
            if sp[0] == "entry":
                n_live_e += 1
                ok = isinstance(b, M.Entry) and any(v is b for v in lib._entries_by_key.values())
                if ok:
                    ok = b_and(E(b.key, sp[1]), E([f.key for f in b.fields], sp[2]))
            else:
                n_live_s += 1
                ok = isinstance(b, M.String) and any(v is b for v in lib._strings_by_key.values())
                if ok:
                    ok = E(b.key, sp[1])
            conds.append(ok)
        elif ex[0] == "dupkey":
            ok = (isinstance(b, M.DuplicateBlockKeyBlock) and (copy_mode or b.previous_block is blocks[ex[1]])
                  and isinstance(b.ignore_error_block, M.Entry if sp[0] == "entry" else M.String)
                  and not any(v is b or v is b.ignore_error_block for v in list(lib._entries_by_key.values()) + list(lib._strings_by_key.values())))
            if ok and copy_mode:
                ok = same_block(b.previous_block, blocks[ex[1]], E)
            if ok is not False:
                ok = b_all([ok, E(b.key, sp[1]), E(b.ignore_error_block.key, sp[1])])
                if sp[0] == "entry":
                    ok = b_and(ok, E([f.key for f in b.ignore_error_block.fields], sp[2]))
            conds.append(ok)
        elif ex[0] == "dupfield":
            ok = (isinstance(b, M.DuplicateFieldKeyBlock) and isinstance(b.ignore_error_block, M.Entry)
                  and not any(v is b or v is b.ignore_error_block for v in lib._entries_by_key.values()))
            if ok:
                inner = b.ignore_error_block
                dk = b.duplicate_keys
                items = dk.items if isinstance(dk, SSet) else sorted(dk)
                ok = b_all([E(inner.key, sp[1]), E([f.key for f in inner.fields], sp[2]), len(items) == len(ex[1])] +
                           [b_any(E(x, y) for y in items) for x in ex[1]])
            conds.append(ok)
    conds.append(len(lib._entries_by_key) == n_live_e)
    conds.append(len(lib._strings_by_key) == n_live_s)
    return conds


def native_run(text, spec_native, copy_mode=False, cut=None):
    import logging, warnings
    logging.disable(logging.CRITICAL)
    warnings.simplefilter("ignore")
    lib, exp = drv(text, spec_native, copy_mode, cut)
    E = lambda a, b: a == b
    conds = verdict(lib, spec_native, exp, E, bool, copy_mode)
    return all(bool(c) for c in conds), [type(b).__name__ for b in lib.blocks], exp


def task(shape, label, copy_mode=False, cut_after=None, samevals=False):
    SAMEVALS[0] = samevals
    eng = Engine()
    rec = Recorder(eng)
    text, spec = build(eng, shape)
    cut = None if cut_after is None else CUTS[cut_after]
    E = eng.I.models.eq_simple
    worlds = eng.run(drv, [text, spec, copy_mode, cut])

    def rp(m):
        t = eng.model_str(m, text)
        sn = eng.model_value(m, spec)
        sn = [tuple(x) for x in sn]
        try:
            ok, kinds, exp = native_run(t, sn, copy_mode, cut)
        except Exception as e:  # noqa
            from pysym.harness import guard_repo_exception
            guard_repo_exception(e)
            return {"input": t, "observed": f"raised {type(e).__name__}: {e}", "expected": "blocks"}
        if ok:
            return None
        return {"input": t, "observed": kinds, "expected": [list(x) if isinstance(x, tuple) else x for x in exp]}

    for W in worlds:
        if W.exc is not None:
            rec.require(W, True, "no-exception", rp)
            continue
        lib, exp = W.result
        conds = verdict(lib, spec, exp, E, None, copy_mode)
        rec.require(W, b_not(b_all(conds)), "duplicates-flagged", rp)
        kinds = [e[0] for e in exp]
        if "dupkey" in kinds:
            rec.witness("duplicate-block-key", W)
        if "dupfield" in kinds:
            rec.witness("duplicate-field-key", W)
        if len(rec.samples) < 2 and ("dupkey" in kinds or "dupfield" in kinds):
            ok, m = eng.query(W, True)
            if ok:
                t = eng.model_str(m, text)
                rec.samples.append({"document": t, "expected": kinds, "native_ok": native_run(t, [tuple(x) for x in eng.model_value(m, spec)], copy_mode, cut)[0]})
                rec.validated += 1
    return rec.result(label=label, worlds=len(worlds))


def main():
    chk = Check("C09", __doc__)
    nmax = 3 if chk.tier == "quick" else 4
    kinds = [("entry", 0), ("entry", 1), ("entry", 2), ("entry", 3), ("string",), ("comment",)]
    shapes = []
    for n in range(2, nmax + 1):
        for sh in itertools.product(kinds, repeat=n):
            if sum(1 for s in sh if s[0] != "comment") < 2 and not any(s[0] == "entry" and s[1] >= 2 for s in sh):
                continue
            if n == 4 and sum(1 for s in sh if s[0] == "comment") > 1:
                continue
            shapes.append(list(sh))
    chk.bounds = {"documents": f"{len(shapes)} shapes: every sequence of 2..{nmax} blocks from entry(0..3 fields) / @string / @comment",
                  "keys": "every entry key, string key and field key is one symbolic character over {a,b} (all collision patterns)"}
    chk.assumptions = ["keys longer than one character and more than the stated number of blocks/fields are outside the claim (collision detection compares whole keys; the pattern space is what matters)",
                       "values are fixed brace-enclosed literals"]
    chk.expected_vacuity = ["duplicate-block-key", "duplicate-field-key"]
    for i, sh in enumerate(shapes):
        name = "+".join(s[0][0] + (str(s[1]) if len(s) > 1 else "") for s in sh)
        chk.add_task(f"{i:03d}-{name}", task, shape=sh, label=name)
        # (copy-mode parse stacks are not part of this property: there previous_block is an equal-by-construction but
        #  untransformed copy of the first block - see DESIGN §7; aliasing in copy mode is C07's subject)
    # repeated fields that are identical in value and line, too
    same = [sh for sh in shapes if len(sh) == 2 and any(x[0] == "entry" and x[1] >= 2 for x in sh)]
    chk.bounds["identical repeated fields"] = f"{len(same)} two-block shapes with every field written ', K = {{v}}' on one line"
    for i, sh in enumerate(same):
        name = "+".join(x[0][0] + (str(x[1]) if len(x) > 1 else "") for x in sh)
        chk.add_task(f"same-{i:03d}-{name}", task, shape=sh, label=name, samevals=True)
    # the same documents cut in two and parsed into one library (parse_string(part2, library=lib))
    two = [sh for sh in shapes if len(sh) == 3 and sum(1 for x in sh if x[0] != "comment") >= 2 and all(x[0] != "entry" or x[1] <= 1 for x in sh)]
    chk.bounds["two documents, one library"] = f"{len(two)} three-block shapes (entries with 0..1 fields, @string, @comment) cut after the first and after the second block"
    for i, sh in enumerate(two):
        name = "+".join(x[0][0] + (str(x[1]) if len(x) > 1 else "") for x in sh)
        for c in (0, 1):
            chk.add_task(f"two-{i:03d}-{name}-cut{c}", task, shape=sh, label=name, cut_after=c)
    chk.run()


if __name__ == "__main__":
    main()
