"""C16 — block sorting is a stable permutation by (type, key) keeping comments attached.

Encoded: SortBlocksByTypeAndKeyMiddleware.__init__/_verify_all_types_are_block_types/_block_junks/transform
(incl. the nested _sort_key closures), _BlockJunk (dataclass, generated __init__ interpreted),
Library.__init__/add/_add_to_dicts/_cast_to_duplicate; list.sort is the engine's stable-sort model calling
the interpreted key functions; deepcopy is the interpreted stdlib function.
Symbolic: the key of every keyed block (1 char over {a,b}; equal keys make Library wrap the later block
into a DuplicateBlockKeyBlock, so duplicate wrappers occur); block kinds, type orders and the comment
mode are enumerated.
"""
import sys
import itertools

from pysym.engine import Engine
from pysym.values import *  # noqa
from pysym.harness import Check, Recorder

from bibtexparser.middlewares.sorting_blocks import SortBlocksByTypeAndKeyMiddleware
from bibtexparser import model as M
from bibtexparser.library import Library

KINDS = {"S": M.String, "P": M.Preamble, "E": M.Entry, "I": M.ImplicitComment, "X": M.ExplicitComment, "F": M.ParsingFailedBlock}
ORDERS = {
    "default": (M.String, M.Preamble, M.Entry, M.ImplicitComment, M.ExplicitComment),
    "reversed": (M.ExplicitComment, M.ImplicitComment, M.Entry, M.Preamble, M.String),
    "entry-only": (M.Entry,),
    "empty": (),
    "comment-first": (M.ExplicitComment, M.Entry, M.String),
    # a type listed twice: its rank is that of the FIRST listing (tuple.index), so entries stay in front of strings here
    "repeated-type": (M.Entry, M.String, M.Preamble, M.Entry),
}


def build(kinds, keys):
    # start lines DEcrease along the list order (a library filled from two documents / blocks moved by replace):
    # the order the statement speaks of is the order of the library, not of the recorded line numbers
    blocks = []
    i = 0
    n = len(kinds)
    for kd in kinds:
        k = keys[i]
        if kd == "S":
            b = M.String(k, "val", n - i, "raw" + str(i))
        elif kd == "P":
            b = M.Preamble("pre", n - i, "raw" + str(i))
        elif kd == "E":
            b = M.Entry("article", k, [M.Field("t", "x")], n - i, "raw" + str(i))
        elif kd == "Z":
            b = M.Entry("article", "", [M.Field("t", "x")], n - i, "raw" + str(i))     # empty key: a key like any other
        elif kd == "J":
            b = M.ImplicitComment("", n - i, "raw" + str(i))        # a comment whose text is empty is still a comment
        elif kd == "Y":
            b = M.ExplicitComment("", n - i, "raw" + str(i))
        elif kd == "Q":
            b = M.ImplicitComment("q", 0, "rawq")                   # value-equal to every other Q block (Block.__eq__)
        elif kd == "I":
            b = M.ImplicitComment("ic", n - i, "raw" + str(i))
        elif kd == "X":
            b = M.ExplicitComment("xc", n - i, "raw" + str(i))
        else:
            b = M.ParsingFailedBlock(Exception("boom"), n - i, "raw" + str(i))
        blocks.append(b)
        i += 1
    return blocks


def block_key(b):
    if isinstance(b, (M.String, M.Entry, M.DuplicateBlockKeyBlock)):
        return b.key
    return ""


def oracle(blocks, order, preserve):
    """indices of the input blocks in the expected output order (statement)"""
    n = len(blocks)

    def rank(b):
        r = len(order)
        j = 0
        for t in order:
            if type(b) is t and r == len(order):
                r = j
            j += 1
        return r
    units = []    # (rank, key, [indices])
    if preserve:
        cur = []
        i = 0
        while i < n:
            b = blocks[i]
            cur.append(i)
            if not isinstance(b, (M.ExplicitComment, M.ImplicitComment)):
                units.append((rank(b), block_key(b), cur))
                cur = []
            i += 1
        if len(cur) > 0:
            last = blocks[cur[-1]]
            units.append((rank(last), "", cur))
    else:
        i = 0
        while i < n:
            units.append((rank(blocks[i]), block_key(blocks[i]), [i]))
            i += 1
    # stable insertion sort by (rank, key)
    out = []
    for u in units:
        p = len(out)
        while p > 0 and (u[0] < out[p - 1][0] or (u[0] == out[p - 1][0] and u[1] < out[p - 1][1])):
            p -= 1
        out.insert(p, u)
    res = []
    for u in out:
        for i in u[2]:
            res.append(i)
    return res


def drv(kinds, keys, order, preserve, remove_idx=None):
    lib = Library(build(kinds, keys))
    if remove_idx is not None:
        lib.remove(lib.blocks[remove_idx])
    before = list(lib.blocks)
    snap = [(type(b), b.start_line, b.raw, block_key(b)) for b in before]
    out = SortBlocksByTypeAndKeyMiddleware(block_type_order=order, preserve_comments_on_top=preserve).transform(lib)
    exp = oracle(before, order, preserve)
    after = [(type(b), b.start_line, b.raw, block_key(b)) for b in lib.blocks]
    same_objs = len(lib.blocks) == len(before)
    if same_objs:
        i = 0
        for b in lib.blocks:
            if b is not before[i]:
                same_objs = False
            i += 1
    got = [(type(b), b.start_line, b.raw, block_key(b)) for b in out.blocks]
    fresh = True
    for b in out.blocks:
        for a in before:
            if a is b:
                fresh = False
    return snap, after, same_objs, got, exp, fresh, out is not lib


def drv_reuse(kinds, keys, keys2, order, preserve, kinds2=None):
    """one sorter instance on two libraries (other keys; kinds2: other kinds, among them a type the first library does
    not have): each result equals that of a fresh instance"""
    kinds2 = kinds if kinds2 is None else kinds2
    desc = lambda lib: [(type(b), b.start_line, b.raw, block_key(b)) for b in lib.blocks]
    mw = SortBlocksByTypeAndKeyMiddleware(block_type_order=order, preserve_comments_on_top=preserve)
    r1 = desc(mw.transform(Library(build(kinds, keys))))
    r2 = desc(mw.transform(Library(build(kinds2, keys2))))
    f1 = desc(SortBlocksByTypeAndKeyMiddleware(block_type_order=order, preserve_comments_on_top=preserve).transform(Library(build(kinds, keys))))
    f2 = desc(SortBlocksByTypeAndKeyMiddleware(block_type_order=order, preserve_comments_on_top=preserve).transform(Library(build(kinds2, keys2))))
    return r1, f1, r2, f2


def task_reuse(kinds):
    total = None
    flip = lambda ks: [mk([c.map(lambda ch: "b" if ch == "a" else "a") for c in chars(k)]) if kd in "SE" else "" for k, kd in zip(ks, kinds)]
    nflip = lambda ks: ["".join("b" if ch == "a" else "a" for ch in k) for k in ks]
    for oname, preserve in itertools.product(("default", "reversed", "entry-only", "empty"), (True, False)):
        eng = Engine()
        rec = Recorder(eng)
        keys = [eng.sym_str(f"k{i}_", 1, "ab") if kd in "SE" else "" for i, kd in enumerate(kinds)]
        kinds2 = None
        second = flip
        nsecond = nflip
        if oname in ("entry-only", "empty"):
            # the second library: the first one reversed, behind a block of a type the first library does not have and
            # the order does not list (whatever an instance remembers about 'other' types from its first call would show)
            kinds2 = "P" + kinds[::-1]
            second = lambda ks: [""] + flip(ks)[::-1]
            nsecond = lambda ks: [""] + nflip(ks)[::-1]
        keys2 = second(keys)
        E = eng.I.models.eq_simple
        worlds = eng.run(drv_reuse, [kinds, keys, keys2, ORDERS[oname], preserve, kinds2])

        def rp(m):
            import logging
            logging.disable(logging.CRITICAL)
            ks = eng.model_value(m, keys)
            ks2 = nsecond(ks)
            try:
                r1, f1, r2, f2 = drv_reuse(kinds, ks, ks2, ORDERS[oname], preserve, kinds2)
            except Exception as ex:  # noqa
                from pysym.harness import guard_repo_exception
                guard_repo_exception(ex)
                return {"input": [kinds, ks, oname, preserve], "observed": f"raised {type(ex).__name__}: {ex}", "expected": "sorted libraries"}
            if r1 == f1 and r2 == f2:
                return None
            return {"input": [kinds, ks, oname, preserve], "observed": {"second library through the same instance": [(t.__name__, l, k) for t, l, r, k in r2]},
                    "expected": [(t.__name__, l, k) for t, l, r, k in f2]}
        for W in worlds:
            if W.exc is not None:
                rec.require(W, True, "reuse-no-exception", rp)
                continue
            r1, f1, r2, f2 = W.result
            rec.require(W, b_not(b_and(E(r1, f1), E(r2, f2))), "instance-holds-no-state", rp)
            rec.witness("instance-reused", W)
        r = rec.result(worlds=len(worlds))
        if total is None:
            total = r
        else:
            for k in ("obligations", "unsat", "validated"):
                total[k] += r[k]
            total["violations"] += r["violations"]
            for k, v in r["vacuity"].items():
                total["vacuity"][k] = total["vacuity"].get(k, False) or v
            for k, v in r["stats"].items():
                if isinstance(v, (int, float)):
                    total["stats"][k] = total["stats"].get(k, 0) + v
    return total


def verdict(res, E):
    snap, after, same_objs, got, exp, fresh, newlib = res
    conds = [same_objs, fresh, newlib, E(snap, after), len(got) == len(snap), sorted(exp) == list(range(len(snap)))]
    if len(got) == len(snap):
        conds.append(E(got, [snap[i] for i in exp]))
    return conds


def replay(kinds, keys, oname, preserve, remove_idx=None):
    import logging
    logging.disable(logging.CRITICAL)
    try:
        res = drv(kinds, keys, ORDERS[oname], preserve, remove_idx)
    except Exception as ex:  # noqa
        from pysym.harness import guard_repo_exception
        guard_repo_exception(ex)
        return {"input": [kinds, keys, oname, preserve], "observed": f"raised {type(ex).__name__}: {ex}", "expected": "sorted library"}
    if all(bool(c) for c in verdict(res, lambda a, b: a == b)):
        return None
    return {"input": [kinds, keys, oname, preserve], "observed": [(t.__name__, l, k) for t, l, r, k in res[3]],
            "expected": [(res[0][i][0].__name__, res[0][i][1], res[0][i][3]) for i in res[4]]}


def task(kinds, remove_idx=None):
    total = None
    for oname, preserve in itertools.product(ORDERS, (True, False)):
        eng = Engine()
        rec = Recorder(eng)
        keys = [eng.sym_str(f"k{i}_", 1, "ab") if kd in "SE" else "" for i, kd in enumerate(kinds)]
        E = eng.I.models.eq_simple
        worlds = eng.run(drv, [kinds, keys, ORDERS[oname], preserve, remove_idx])
        for W in worlds:
            rp = lambda m: replay(kinds, eng.model_value(m, keys), oname, preserve, remove_idx)
            if W.exc is not None:
                rec.require(W, True, "no-exception", rp)
                continue
            rec.require(W, b_not(b_all(verdict(W.result, E))), "stable-sorted-permutation", rp)
            if W.result[4] != list(range(len(W.result[0]))):
                rec.witness("reordered", W)
            if any(t is M.DuplicateBlockKeyBlock for t, _, _, _ in W.result[0]):
                rec.witness("duplicate-wrapper-sorted", W)
        if worlds and not rec.samples:
            ok, m = eng.query(worlds[-1], True)
            if ok and worlds[-1].exc is None:
                rec.samples.append({"kinds": kinds, "keys": eng.model_value(m, keys), "order": oname, "preserve": preserve,
                                    "output order (input indices)": worlds[-1].result[4]})
                rec.validated += 1
        r = rec.result(worlds=len(worlds))
        if total is None:
            total = r
        else:
            for k in ("obligations", "unsat", "validated"):
                total[k] += r[k]
            total["violations"] += r["violations"]
            for k, v in r["vacuity"].items():
                total["vacuity"][k] = total["vacuity"].get(k, False) or v
            for k, v in r["stats"].items():
                if isinstance(v, (int, float)):
                    total["stats"][k] = total["stats"].get(k, 0) + v
            fn = {(f["file"], f["function"]): f for f in total["functions"] + r["functions"]}
            total["functions"] = list(fn.values())
    return total


def main():
    chk = Check("C16", __doc__)
    nmax = 3 if chk.tier == "quick" else 4
    seqs = [""]        # the empty library too
    for n in range(1, nmax + 1):
        for kinds in itertools.product("SPEIXF", repeat=n):
            seqs.append("".join(kinds))
    if chk.tier == "quick":
        # plus the length-4 sequences with a comment run above two keyed blocks
        for kinds in itertools.product("SEIXF", repeat=4):
            s = "".join(kinds)
            if sum(c in "SE" for c in s) >= 2 and sum(c in "IX" for c in s) >= 1 and "F" not in s[1:]:
                seqs.append(s)
    chk.bounds = {"libraries": f"{len(seqs)} kind sequences (all of length <= {nmax}" + (" plus selected length-4" if chk.tier == "quick" else "") + ") over String/Preamble/Entry/ImplicitComment/ExplicitComment/ParsingFailedBlock",
                  "keys": "every String/Entry key one symbolic character over {a,b} (collisions produce DuplicateBlockKeyBlock wrappers)",
                  "orders": sorted(ORDERS), "comment modes": [True, False]}
    chk.assumptions = ["block_type_order ranges over the six listed orders (full, reversed, single, empty, partial, one type listed twice)", "keys are one character; empty keys occur through key-less blocks and through an entry whose key is the empty string"]
    chk.expected_vacuity = ["reordered", "duplicate-wrapper-sorted", "instance-reused"]
    # comments with empty text, and comments that compare equal to one another (a comment is a comment by type, and the
    # comment run above a block is found by position, not by value)
    extra = []
    for n in range(2, 5):
        for kinds in itertools.product("JYQES", repeat=n):
            s = "".join(kinds)
            if (("J" in s or "Y" in s) and n <= 3 and sum(c in "ES" for c in s) >= 1) or (s.count("Q") >= 2 and sum(c in "ES" for c in s) >= 1 and "J" not in s and "Y" not in s):
                extra.append(s)
    for n in (2, 3):
        for kinds in itertools.product("ZPSEX", repeat=n):
            s2 = "".join(kinds)
            if "Z" in s2 and sum(c in "PSE" for c in s2) >= 1:
                extra.append(s2)
    chk.bounds["empty / value-equal comments"] = f"{len(extra)} sequences of length 2..4 over empty-text implicit/explicit comments, value-equal comments, Entry, String"
    for s in seqs + extra:
        chk.add_task(f"seq-{s}", task, kinds=s)
    # libraries in which the first block was removed again (a duplicate wrapper may outlive its original)
    rem = [s for s in seqs if 2 <= len(s) <= 3 and (s.count("E") >= 2 or s.count("S") >= 2)]
    chk.bounds["after remove"] = f"{len(rem)} sequences with two same-kind keyed blocks, first block removed before sorting"
    for s in rem:
        chk.add_task(f"rem0-{s}", task, kinds=s, remove_idx=0)
    chk.bounds["one instance, two libraries"] = "ESE, SES, EIE, XES, EE with the keys of the second library swapped (a<->b); default and reversed order, both modes; with the orders (Entry,) and () the second library is the first one reversed behind a @preamble (a type the first call has not seen and the order does not list)"
    for s in ("ESE", "SES", "EIE", "XES", "EE"):
        chk.add_task(f"reuse-{s}", task_reuse, kinds=s)
    chk.run()


if __name__ == "__main__":
    main()
