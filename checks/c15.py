"""C15 — month middlewares share one 12-month table, compose, and leave non-months alone.

Encoded: _MonthInterpolator.transform_entry, MonthIntMiddleware / MonthAbbreviationMiddleware /
MonthLongStringMiddleware.resolve_month_field_val, BlockMiddleware.transform/transform_block,
Entry.fields_dict, Field setters, Library.  The module tables (_MONTH_ABBREV_TO_FULL, ...) are
the live ones.
Symbolic: the month value: a string of length 0..9 over the letters of the twelve names (both
cases), digits, and { ² ٣ { " space x }; or an int (SInt); or no month field at all.
Oracle: written from the statement with Python's own calendar-free table (12 English names).
"""
import sys
import z3

from pysym.engine import Engine
from pysym.values import *  # noqa
from pysym.harness import Check, Recorder

from bibtexparser.middlewares import month as MM
from bibtexparser.model import Entry, Field
from bibtexparser.library import Library

FULL = ["January", "February", "March", "April", "May", "June", "July", "August", "September", "October",
        "November", "December"]
ABBR = [m[:3].lower() for m in FULL]
LETTERS = "".join(sorted(set("".join(FULL).lower() + "".join(FULL).upper())))
EXTRA = "1²{\" xſ"         # word family: one ASCII digit, one non-ASCII digit, enclosers, blank, filler, U+017F (casefolds to "s", lower() leaves it)
DIGITS = "0123456789²٣\n "  # numeric family (a line feed / blank next to digits is not part of a digit string)
MWS = {"int": MM.MonthIntMiddleware, "abbr": MM.MonthAbbreviationMiddleware, "long": MM.MonthLongStringMiddleware}


def expected(kind, m):
    return {"int": m, "abbr": ABBR[m - 1], "long": FULL[m - 1]}[kind]


def drv_one(v, present):
    fields = [Field("title", "t")]
    if present:
        fields.append(Field("month", v))
    e = Entry("article", "k", fields)
    out = {}
    for kind in ("int", "abbr", "long"):
        e2 = Entry("article", "k", [Field(f.key, f.value) for f in fields])
        lib = MWS[kind](True).transform(Library([e2]))
        out[kind] = lib.blocks
    return out


def drv_triple(v, ka, kb, kc):
    e = Entry("article", "k", [Field("month", v)])
    lib = MWS[kc](True).transform(MWS[kb](True).transform(MWS[ka](True).transform(Library([e]))))
    e2 = Entry("article", "k", [Field("month", v)])
    lib2 = MWS[kc](True).transform(Library([e2]))
    return lib.blocks, lib2.blocks


def drv_two(v1, v2, kind):
    """two entries through ONE middleware instance (and a second library through the same instance): each result must be
    what the entry gets on its own from a fresh instance"""
    mw = MWS[kind](True)
    joint = mw.transform(Library([Entry("article", "k1", [Field("month", v1)]), Entry("article", "k2", [Field("month", v2)])]))
    again = mw.transform(Library([Entry("article", "k3", [Field("month", v2)])]))
    alone1 = MWS[kind](True).transform(Library([Entry("article", "k1", [Field("month", v1)])]))
    alone2 = MWS[kind](True).transform(Library([Entry("article", "k2", [Field("month", v2)])]))
    return joint.blocks, again.blocks, alone1.blocks, alone2.blocks


def drv_pair(v, ka, kb):
    e = Entry("article", "k", [Field("month", v)])
    lib = MWS[kb](True).transform(MWS[ka](True).transform(Library([e])))
    e2 = Entry("article", "k", [Field("month", v)])
    lib2 = MWS[kb](True).transform(Library([e2]))
    return lib.blocks, lib2.blocks


# ------------------------------------------------------------------ which month does a value denote?
def month_of_native(v):
    if isinstance(v, bool):
        return None
    if isinstance(v, int):
        return v if 1 <= v <= 12 else None
    if isinstance(v, str):
        if v.isascii() and v.isdigit() and len(v) > 0:
            sig = v.lstrip("0")       # a decimal string of any length (int() itself refuses more than 4300 digits)
            return int(sig) if 1 <= len(sig) <= 2 and 1 <= int(sig) <= 12 else None
        low = v.lower()
        for i in range(12):
            if low == ABBR[i] or low == FULL[i].lower():
                return i + 1
    return None


def denotes(v, m):
    """SBool/bool: symbolic string v is a spelling of month m (statement: decimal digit string, abbreviation or full
    name in any letter case)"""
    cs = chars(v)
    alts = False
    for name in (ABBR[m - 1], FULL[m - 1].lower()):
        if len(name) == len(cs):
            alts = b_or(alts, b_all(b_or(ch_eq(c, a), ch_eq(c, a.upper())) for c, a in zip(cs, name)))
    # decimal strings with leading zeros
    if len(cs) >= 1:
        digits = str(m)
        if len(cs) >= len(digits):
            pad = len(cs) - len(digits)
            alts = b_or(alts, b_all([ch_eq(c, "0") for c in cs[:pad]] + [ch_eq(c, d) for c, d in zip(cs[pad:], digits)]))
    return alts


def value_of(blocks):
    """-> (status, value) for the single entry's month field"""
    if len(blocks) != 1 or not isinstance(blocks[0], Entry):
        return "bad-blocks", None
    f = [x for x in blocks[0].fields if x.key == "month"]
    if len(f) != 1:
        return "no-month", None
    return "ok", f[0].value


def replay_one(v, present=True):
    import logging
    logging.disable(logging.CRITICAL)
    m = month_of_native(v) if present else None
    for kind in ("int", "abbr", "long"):
        fields = [Field("title", "t")] + ([Field("month", v)] if present else [])
        e = Entry("article", "k", fields)
        try:
            blocks = MWS[kind](True).transform(Library([e])).blocks
        except Exception as ex:  # noqa
            from pysym.harness import guard_repo_exception
            guard_repo_exception(ex)
            return {"input": v, "observed": f"{kind}: raised {type(ex).__name__}: {ex}", "expected": "no exception"}
        if not present:
            if len(blocks) != 1 or [f.key for f in blocks[0].fields] != ["title"]:
                return {"input": None, "observed": f"{kind}: entry without month changed", "expected": "unchanged"}
            continue
        st, got = value_of(blocks)
        exp = expected(kind, m) if m is not None else v
        if st != "ok" or type(got) is not type(exp) or got != exp:
            shown = repr(got) if isinstance(got, (str, int)) else f"<{type(got).__name__} object>"
            return {"input": v, "observed": f"{kind}: {shown} ({type(got).__name__})", "expected": repr(exp)}
    return None


def replay_pair(v, ka, kb):
    import logging
    logging.disable(logging.CRITICAL)
    try:
        a, b = drv_pair(v, ka, kb)
    except Exception as ex:  # noqa
        from pysym.harness import guard_repo_exception
        guard_repo_exception(ex)
        return {"input": v, "observed": f"{ka} then {kb}: raised {type(ex).__name__}: {ex}", "expected": "no exception"}
    if month_of_native(v) is None:
        return None
    x, y = value_of(a)[1], value_of(b)[1]
    if type(x) is type(y) and x == y:
        return None
    return {"input": v, "observed": f"{kb}({ka}(v)) = {x!r}", "expected": f"{kb}(v) = {y!r}"}


def check_one(eng, rec, W, v, rp):
    E = eng.I.models.eq_simple
    if W.exc is not None:
        rec.require(W, True, "no-exception", rp)
        return
    out = W.result
    for kind in ("int", "abbr", "long"):
        st, got = value_of(out[kind])
        if st != "ok":
            rec.require(W, True, f"{kind}-structure", rp)
            continue
        if is_strlike(v):
            any_month = False
            for m in range(1, 13):
                d = denotes(v, m)
                if d is False:
                    continue
                any_month = b_or(any_month, d)
                exp = expected(kind, m)
                good = (type(got) is int and got == exp) if kind == "int" else (is_strlike(got) and E(got, exp))
                rec.require(W, b_and(d, b_not(good)), f"{kind}-month", rp)
                if good is not False:
                    rec.witness(f"{kind}-converted", W, d)
            same = is_strlike(got) and E(got, v)
            rec.require(W, b_and(b_not(any_month), b_not(same)), f"{kind}-unchanged", rp)
        else:   # int leaf
            if isinstance(v, SInt):
                inr = b_and(i_cmp(">=", v, 1), i_cmp("<=", v, 12))
                if kind == "int":
                    good = isinstance(got, (int, SInt)) and not isinstance(got, bool)
                    good = good and E(got, v)
                    rec.require(W, b_not(good), "int-int", rp)
                else:
                    table = ABBR if kind == "abbr" else FULL
                    for m in range(1, 13):
                        good = is_strlike(got) and E(got, table[m - 1])
                        rec.require(W, b_and(i_cmp("==", v, m), b_not(good)), f"{kind}-int-month", rp)
                    good = isinstance(got, (int, SInt)) and E(got, v)
                    rec.require(W, b_and(b_not(inr), b_not(good)), f"{kind}-int-unchanged", rp)


def task_str(L, prefix="", family="word"):
    eng = Engine()
    rec = Recorder(eng)
    sigma = LETTERS + EXTRA if family == "word" else DIGITS
    v = mk([eng.sym_char(f"c{i}", prefix[i] if i < len(prefix) else sigma) for i in range(L)])
    worlds = eng.run(drv_one, [v, True])
    for W in worlds:
        check_one(eng, rec, W, v, lambda m: replay_one(eng.model_str(m, v)))
    if worlds and len(rec.samples) < 2:
        ok, m = eng.query(worlds[0], True)
        if ok:
            rec.samples.append({"month value": eng.model_str(m, v)})
            rec.validated += 1
    return rec.result(L=L, worlds=len(worlds))


def task_pumped(L, n=5000):
    """size clause of "no value whatsoever makes the middleware raise": every execution path of the numeric family of
    length L gives solver witnesses; each is replayed on the real code with every character repeated n times"""
    eng = Engine()
    rec = Recorder(eng)
    v = eng.sym_str("c", L, DIGITS)
    worlds = eng.run(drv_one, [v, True])
    import z3
    E = eng.I.models.eq_simple
    for W in worlds:
        block = []
        for _ in range(3):
            sat, m = eng.query(W, z3.And(block) if block else True)
            if not sat:
                break
            inp = eng.model_str(m, v)
            for i in range(len(inp)):
                big = inp[:i] + inp[i] * n + inp[i + 1:]
                r = replay_one(big)
                rec.validated += 1
                if r is not None:
                    r["input"] = r["input"][:12] + f"...({len(big)} characters: {inp!r} with character {i} repeated {n} times)"
                    r["tag"] = "pumped-value"
                    r["expected"] = str(r["expected"])[:60]
                    rec.violations.append(r)
                    return rec.result(worlds=len(worlds))
            block.append(z3.Not(b_z3(E(v, inp))))
        rec.witness("pumped", W)
    return rec.result(worlds=len(worlds))


def task_pumped_int():
    """the same for int values: a witness m of every path of the int family, replayed as m * 10**5000 and +-10**5000 + m"""
    eng = Engine()
    rec = Recorder(eng)
    v = eng.sym_int("m", -3, 14)
    worlds = eng.run(drv_one, [v, True])
    for W in worlds:
        sat, m = eng.query(W, True)
        if not sat:
            continue
        k = eng.model_value(m, v)
        for big in (k * 10 ** 5000, 10 ** 5000 + k, -(10 ** 5000) + k):
            if -100 < big < 100:
                continue
            r = replay_one(big)
            rec.validated += 1
            if r is not None:
                r["input"] = f"an int of about 5000 digits built from the witness {k} (k * 10**5000, 10**5000 + k, -10**5000 + k)"
                r["tag"] = "pumped-value"
                r["observed"] = str(r["observed"])[:200]
                r["expected"] = "unchanged, no exception"
                rec.violations.append(r)
                return rec.result(worlds=len(worlds))
        rec.witness("pumped", W)
    return rec.result(worlds=len(worlds))


def task_other_types():
    """values that are neither str nor int: returned unchanged with their type, no exception (concrete, interpreted)"""
    import decimal, fractions
    eng = Engine()
    rec = Recorder(eng)
    for val in (3.0, 3.5, None, ["mar"], ("mar",), decimal.Decimal(3), fractions.Fraction(5), b"mar", {"m": 1}):
        worlds = eng.run(drv_one, [val, True])
        for W in worlds:
            ok = W.exc is None
            if ok:
                for kind in ("int", "abbr", "long"):
                    st, got = value_of(W.result[kind])
                    if st != "ok" or got is not val and not (type(got) is type(val) and got == val):
                        ok = False

            def rp(m, val=val):
                import logging
                logging.disable(logging.CRITICAL)
                for kind in ("int", "abbr", "long"):
                    e = Entry("article", "k", [Field("month", val)])
                    try:
                        MWS[kind](True).transform(Library([e]))
                    except Exception as ex:  # noqa
                        from pysym.harness import guard_repo_exception
                        guard_repo_exception(ex)
                        return {"input": repr(val), "observed": f"{kind}: raised {type(ex).__name__}: {ex}", "expected": "unchanged"}
                    got = e.fields[0].value
                    if type(got) is not type(val) or got != val:
                        return {"input": repr(val), "observed": f"{kind}: {got!r} ({type(got).__name__})", "expected": "unchanged, same type"}
                return None
            rec.require(W, not ok, "other-types-unchanged", rp)
    return rec.result()


def task_int(lo, hi):
    eng = Engine()
    rec = Recorder(eng)
    v = eng.sym_int("m", lo, hi)
    worlds = eng.run(drv_one, [v, True])
    for W in worlds:
        check_one(eng, rec, W, v, lambda m: replay_one(eng.model_value(m, v)))
    rec.samples.append({"int range": [lo, hi], "worlds": len(worlds)})
    return rec.result(worlds=len(worlds))


def task_absent():
    eng = Engine()
    rec = Recorder(eng)
    worlds = eng.run(drv_one, ["x", False])
    for W in worlds:
        ok = W.exc is None and all(len(W.result[k]) == 1 and isinstance(W.result[k][0], Entry)
                                   and [f.key for f in W.result[k][0].fields] == ["title"] for k in W.result)
        rec.require(W, not ok, "absent-month-unchanged", lambda m: replay_one("x", False))
    return rec.result()


def task_pair(L, ka, kb, family="word"):
    eng = Engine()
    rec = Recorder(eng)
    sigma = LETTERS + EXTRA if family == "word" else DIGITS
    v = eng.sym_str("c", L, sigma)
    E = eng.I.models.eq_simple
    worlds = eng.run(drv_pair, [v, ka, kb])
    for W in worlds:
        rp = lambda m: replay_pair(eng.model_str(m, v), ka, kb)
        if W.exc is not None:
            rec.require(W, True, "pair-no-exception", rp)
            continue
        a, b = W.result
        (sa, x), (sb, y) = value_of(a), value_of(b)
        if sa != "ok" or sb != "ok":
            rec.require(W, True, "pair-structure", rp)
            continue
        anym = b_any(denotes(v, m) for m in range(1, 13))
        same = (type(x) is type(y) or (is_strlike(x) and is_strlike(y))) and E(x, y)
        rec.require(W, b_and(anym, b_not(same)), "compose", rp)
        rec.witness("pair-on-month", W, anym)
    return rec.result(L=L, worlds=len(worlds))


def task_triple(L, ka, kb, kc):
    """applying any of them after the others equals applying the last one alone (also when a kind repeats)"""
    eng = Engine()
    rec = Recorder(eng)
    v = eng.sym_str("c", L, LETTERS + EXTRA) if L else eng.sym_int("m", 1, 12)
    E = eng.I.models.eq_simple
    worlds = eng.run(drv_triple, [v, ka, kb, kc])

    def rp(m):
        import logging
        logging.disable(logging.CRITICAL)
        val = eng.model_value(m, v)
        try:
            a, b = drv_triple(val, ka, kb, kc)
        except Exception as ex:  # noqa
            from pysym.harness import guard_repo_exception
            guard_repo_exception(ex)
            return {"input": val, "observed": f"{ka},{kb},{kc}: raised {type(ex).__name__}: {ex}", "expected": "no exception"}
        if month_of_native(val) is None:
            return None
        x, y = value_of(a)[1], value_of(b)[1]
        if type(x) is type(y) and x == y:
            return None
        return {"input": val, "observed": f"{kc}({kb}({ka}(v))) = {x!r}", "expected": f"{kc}(v) = {y!r}"}
    for W in worlds:
        if W.exc is not None:
            rec.require(W, True, "triple-no-exception", rp)
            continue
        a, b = W.result
        (sa, x), (sb, y) = value_of(a), value_of(b)
        if sa != "ok" or sb != "ok":
            rec.require(W, True, "triple-structure", rp)
            continue
        anym = b_any(denotes(v, m) for m in range(1, 13)) if L else True
        same = (model_t(x) is model_t(y)) and E(x, y)
        rec.require(W, b_and(anym, b_not(same)), "compose-three", rp)
    return rec.result(worlds=len(worlds))


TWO_SIGMA = "jJaAnN{1"


def task_two(L1, L2, kind):
    eng = Engine()
    rec = Recorder(eng)
    v1 = eng.sym_str("a", L1, TWO_SIGMA)
    v2 = eng.sym_str("b", L2, TWO_SIGMA)
    E = eng.I.models.eq_simple
    worlds = eng.run(drv_two, [v1, v2, kind])

    def vals(blocks):
        out = []
        for b in blocks:
            if not isinstance(b, Entry) or len(b.fields) != 1:
                return None
            out.append(b.fields[0].value)
        return out

    def rp(m):
        import logging
        logging.disable(logging.CRITICAL)
        a, b = eng.model_str(m, v1), eng.model_str(m, v2)
        try:
            j, g, x, y = [vals(r) for r in drv_two(a, b, kind)]
        except Exception as ex:  # noqa
            from pysym.harness import guard_repo_exception
            guard_repo_exception(ex)
            return {"input": [a, b, kind], "observed": f"raised {type(ex).__name__}: {ex}", "expected": "no exception"}
        if j is not None and x is not None and y is not None and g is not None and j == x + y and g == y and [type(t) for t in j] == [type(t) for t in x + y]:
            return None
        return {"input": [a, b, kind], "observed": {"together": j, "second library, same instance": g}, "expected": {"alone": [x, y]}}
    for W in worlds:
        if W.exc is not None:
            rec.require(W, True, "two-no-exception", rp)
            continue
        j, g, x, y = [vals(r) for r in W.result]
        if j is None or g is None or x is None or y is None or len(j) != 2 or len(g) != 1:
            rec.require(W, True, "two-structure", rp)
            continue
        same = b_all([model_t(j[0]) is model_t(x[0]), model_t(j[1]) is model_t(y[0]), model_t(g[0]) is model_t(y[0]),
                      E(j[0], x[0]), E(j[1], y[0]), E(g[0], y[0])])
        rec.require(W, b_not(same), "entries-independent", rp)
        rec.witness("two-entries", W)
    return rec.result(worlds=len(worlds))


def task_pair_int(ka, kb):
    eng = Engine()
    rec = Recorder(eng)
    v = eng.sym_int("m", 1, 12)
    E = eng.I.models.eq_simple
    worlds = eng.run(drv_pair, [v, ka, kb])
    for W in worlds:
        rp = lambda m: replay_pair(eng.model_value(m, v), ka, kb)
        if W.exc is not None:
            rec.require(W, True, "pair-no-exception", rp)
            continue
        a, b = W.result
        x, y = value_of(a)[1], value_of(b)[1]
        same = (model_t(x) is model_t(y)) and E(x, y)
        rec.require(W, b_not(same), "compose-int", rp)
    return rec.result(worlds=len(worlds))


def model_t(x):
    return str if is_strlike(x) else (int if isinstance(x, (int, SInt)) and not isinstance(x, bool) else type(x))


def main():
    chk = Check("C15", __doc__)
    LS = 9
    ir = (-30, 60) if chk.tier == "quick" else (-300, 300)
    LD = 4 if chk.tier == "quick" else 5
    chk.bounds = {"word family": f"every string of length 0..{LS} over {len(LETTERS + EXTRA)} symbols {LETTERS + EXTRA!r}",
                  "numeric family": f"every string of length 1..{LD} over {DIGITS!r} (leading zeros, non-ASCII digit characters)",
                  "int values": list(ir), "pairs": "all 9 ordered pairs on both string families and ints 1..12; all 27 ordered triples on ints 1..12 and strings of length 1..3"}
    chk.assumptions = ["values outside the alphabet / longer than 9 characters / non-str non-int values are outside the claim",
                       "a 'digit string' in the statement is read as ASCII decimal digits; non-ASCII digit characters (² ٣) are non-months and must be returned unchanged without an exception"]
    chk.expected_vacuity = ["int-converted", "abbr-converted", "long-converted", "pair-on-month", "two-entries", "pumped"]
    for L in range(LS, -1, -1):
        chk.add_task(f"str-L{L}", task_str, L=L)
    for L in range(LD, 0, -1):
        if L == LD:
            for a in DIGITS:
                chk.add_task(f"num-L{L}-{a}", task_str, L=L, prefix=a, family="num")
        else:
            chk.add_task(f"num-L{L}", task_str, L=L, family="num")
    chk.bounds["two entries, one instance"] = f"month values of length 1..3 each over {TWO_SIGMA!r} (spellings differing in case only, braces, a digit), all three middlewares; a second library through the same instance"
    for kind in MWS:
        for L1 in (3, 2, 1):
            for L2 in (3, 2, 1):
                chk.add_task(f"two-{kind}-{L1}+{L2}", task_two, L1=L1, L2=L2, kind=kind)
    chk.bounds["other value types"] = "3.0, 3.5, None, a list, a tuple, Decimal(3), Fraction(5), bytes, a dict: unchanged with their type"
    chk.bounds["pumped values"] = "every execution path of the numeric family of length 1..2: up to 3 solver witnesses, each replayed on the real code with every character repeated 5000 times (longer than the interpreter's limit for int()); int witnesses scaled to about 10**5000 (beyond the limit for str(int))"
    for L in (2, 1):
        chk.add_task(f"pumped-L{L}", task_pumped, L=L)
    chk.add_task("pumped-int", task_pumped_int)
    chk.add_task("other-types", task_other_types)
    chk.add_task("int", task_int, lo=ir[0], hi=ir[1])
    chk.add_task("absent", task_absent)
    for ka in MWS:
        for kb in MWS:
            chk.add_task(f"pairint-{ka}-{kb}", task_pair_int, ka=ka, kb=kb)
            for L in (1, 2, 3, 4, 5, 6, 7, 8, 9):
                chk.add_task(f"pair-{ka}-{kb}-L{L}", task_pair, L=L, ka=ka, kb=kb)
            for L in (1, 2):
                chk.add_task(f"pairnum-{ka}-{kb}-L{L}", task_pair, L=L, ka=ka, kb=kb, family="num")
    for ka in MWS:
        for kb in MWS:
            for kc in MWS:
                for L in (0, 1, 2, 3):
                    chk.add_task(f"triple-{ka}-{kb}-{kc}-L{L}", task_triple, L=L, ka=ka, kb=kb, kc=kc)
    chk.run()


if __name__ == "__main__":
    main()
