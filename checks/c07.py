"""C07 — writing and copy-mode middleware never mutate or alias their input.

Encoded: write_string, every shipped middleware's transform / transform_block / transform_* methods,
BlockMiddleware / LibraryMiddleware, SortBlocksByTypeAndKeyMiddleware, Library, writer, the interpreted
stdlib deepcopy (so the repo's __deepcopy__ hooks run).
Symbolic: allow_inplace_modification itself (a symbolic boolean: the same run shows that the copy branch
is taken exactly when it is False), the entry keys (collisions -> duplicate wrappers) and two garbage
characters of the parsed document (-> failed blocks / comments).
Obligations in the worlds where the flag is False (always for the block sorter and write_string):
(i) no mutable object (block, field, field list, list/NameParts value, metadata dict) reachable from the
output is reachable from the input - decided by walking the engine's heap; (ii) a deep structural
snapshot of the input taken before the call equals the one taken after; (iii) write_string twice gives
identical text and leaves the format's attributes unchanged.
"""
import sys
import itertools

from pysym.engine import Engine
from pysym.values import *  # noqa
from pysym.models import Stub, SSet
from pysym.harness import Check, Recorder
from checks.splitcommon import SIGMA_S

import bibtexparser
from bibtexparser import middlewares as MW
from bibtexparser.middlewares.names import NameParts
from bibtexparser.splitter import Splitter
from bibtexparser.writer import BibtexFormat
from bibtexparser import model as M
from bibtexparser.library import Library


def snap_value(v):
    if isinstance(v, NameParts):
        return ("NP", list(v.first), list(v.von), list(v.last), list(v.jr))
    if isinstance(v, list):
        return ("L", [snap_value(x) for x in v])
    return v


def snap_meta(d):
    out = []
    for k in d:
        x = d[k]
        if isinstance(x, dict):
            out.append((k, [(kk, x[kk]) for kk in x]))
        elif isinstance(x, list):
            out.append((k, list(x)))
        else:
            out.append((k, x))
    return out


def snap_block(b):
    base = [type(b).__name__, b.start_line, b.raw, snap_meta(b.parser_metadata)]
    if isinstance(b, M.Entry):
        base += [b.entry_type, b.key, [(f.key, snap_value(f.value), f.start_line) for f in b.fields]]
    elif isinstance(b, M.String):
        base += [b.key, b.value]
    elif isinstance(b, M.Preamble):
        base += [b.value]
    elif isinstance(b, (M.ExplicitComment, M.ImplicitComment)):
        base += [b.comment]
    elif isinstance(b, M.ParsingFailedBlock):
        inner = b.ignore_error_block
        base += [None if inner is None else snap_block(inner)]
    return base


def snap(lib):
    return [snap_block(b) for b in lib.blocks], [k for k in lib.entries_dict], [k for k in lib.strings_dict]


def make_mw(name, inplace, stub):
    if name == "remove":
        return MW.RemoveEnclosingMiddleware(allow_inplace_modification=inplace)
    if name == "add{":
        return MW.AddEnclosingMiddleware(reuse_previous_enclosing=False, enclose_integers=True, default_enclosing="{", allow_inplace_modification=inplace)
    if name == "addq":
        return MW.AddEnclosingMiddleware(reuse_previous_enclosing=True, enclose_integers=False, default_enclosing='"', allow_inplace_modification=inplace)
    if name == "resolve":
        return MW.ResolveStringReferencesMiddleware(allow_inplace_modification=inplace)
    if name == "monthint":
        return MW.MonthIntMiddleware(allow_inplace_modification=inplace)
    if name == "monthabbr":
        return MW.MonthAbbreviationMiddleware(allow_inplace_modification=inplace)
    if name == "monthlong":
        return MW.MonthLongStringMiddleware(allow_inplace_modification=inplace)
    if name == "normkeys":
        return MW.NormalizeFieldKeys(allow_inplace_modification=inplace)
    if name == "sortalpha":
        return MW.SortFieldsAlphabeticallyMiddleware(allow_inplace_modification=inplace)
    if name == "sortcustom":
        return MW.SortFieldsCustomMiddleware(order=("t", "author"), allow_inplace_modification=inplace)
    if name == "sortcustomcs":
        # the order handed in as a (mutable) list and used as it is (case_sensitive=True)
        return MW.SortFieldsCustomMiddleware(order=["t", "author"], case_sensitive=True, allow_inplace_modification=inplace)
    if name == "separate":
        return MW.SeparateCoAuthors(allow_inplace_modification=inplace)
    if name == "splitnames":
        return MW.SplitNameParts(allow_inplace_modification=inplace)
    if name == "mergeparts":
        return MW.MergeNameParts("last", inplace)
    if name == "mergeco":
        return MW.MergeCoAuthors(allow_inplace_modification=inplace)
    if name == "sortblocks":
        return MW.SortBlocksByTypeAndKeyMiddleware()
    if name == "sortblocks2":
        return MW.SortBlocksByTypeAndKeyMiddleware(preserve_comments_on_top=False)
    if name == "latexenc":
        return MW.LatexEncodingMiddleware(encoder=stub, allow_inplace_modification=inplace)
    if name == "latexdec":
        return MW.LatexDecodingMiddleware(decoder=stub, allow_inplace_modification=inplace)
    raise ValueError(name)


ALWAYS_COPY = ("sortblocks", "sortblocks2")


def always_copy(stack):
    return all(n in ALWAYS_COPY for n in stack if n != "=")

NAMES = ["remove", "add{", "addq", "resolve", "monthint", "monthabbr", "monthlong", "normkeys", "sortalpha", "sortcustom", "sortcustomcs", "separate",
         "splitnames", "mergeparts", "mergeco", "sortblocks", "sortblocks2", "latexenc", "latexdec"]


def prepare(text, prep):
    lib = Splitter(text).split()
    for name in prep:
        lib = make_mw(name, True, None).transform(lib)
    return lib


def drv(text, prep, stack, inplace, stub, ctx):
    lib = prepare(text, prep)
    ctx["lib"] = lib
    ctx["before"] = snap(lib)
    out = lib
    try:
        mw = None
        for name in stack:
            # "=" : the previous middleware INSTANCE once more, on its own result
            mw = mw if name == "=" else make_mw(name, inplace, stub)
            if name == "=":
                lib = out
                ctx["before"] = snap(lib)
            out = mw.transform(out)
    except Exception as ex:
        # A middleware may reject input it is not made for (SplitNameParts on a plain string ...).  Whether THIS is such a
        # rejection is decided by the transformation itself: the same stack in in-place mode on a second, fresh library.
        lib2 = prepare(text, prep)
        rejected = False
        try:
            o2 = lib2
            m2 = None
            for name in stack:
                m2 = m2 if name == "=" else make_mw(name, True, stub)
                o2 = m2.transform(o2)
        except Exception:
            rejected = True
        return lib, None, ctx["before"], snap(lib), (type(ex).__name__, rejected)
    return lib, out, ctx["before"], snap(lib), None


def drv_write(text, prep, how="default"):
    lib = prepare(text, prep)
    fmt = BibtexFormat()
    fmt.value_column = "auto"
    fb = dict(fmt.__dict__)
    before = snap(lib)
    same = how.endswith("-same")       # the second call gets the very same middleware instances (a stack built once)
    how = how[:-5] if same else how
    if how == "merge-prepend":
        # the documented way to write a library holding split names (also one holding an invalid-name error block)
        kw = {"prepend_middleware": [make_mw("mergeparts", False, None), make_mw("mergeco", False, None)]}
    elif how in ("default", "raising"):
        kw = {}
    elif how == "empty-prepend":
        kw = {"prepend_middleware": []}
    elif how == "copy-prepend":
        kw = {"prepend_middleware": [make_mw("sortalpha", False, None)]}
    else:
        kw = {"unparse_stack": [make_mw("add{", False, None)]}
    if how == "raising":
        # an unfillable parsing_failed_comment template makes the writer raise at the first failed block (the document
        # always holds one): library and format must be left as they were all the same
        fmt.parsing_failed_comment = "% {n} {oops}"
        fb = dict(fmt.__dict__)
        t1 = t2 = None
        try:
            t1 = bibtexparser.write_string(lib, bibtex_format=fmt)
        except (KeyError, IndexError, ValueError):
            pass
        mid = snap(lib)
        try:
            t2 = bibtexparser.write_string(lib, bibtex_format=fmt)
        except (KeyError, IndexError, ValueError):
            pass
        return before, mid, snap(lib), t1, t2, fb, dict(fmt.__dict__)
    t1 = bibtexparser.write_string(lib, bibtex_format=fmt, **kw)
    mid = snap(lib)
    if same:
        pass
    elif how == "merge-prepend":
        kw = {"prepend_middleware": [make_mw("mergeparts", False, None), make_mw("mergeco", False, None)]}
    elif how == "copy-prepend":
        kw = {"prepend_middleware": [make_mw("sortalpha", False, None)]}
    elif how == "stack":
        kw = {"unparse_stack": [make_mw("add{", False, None)]}
    t2 = bibtexparser.write_string(lib, bibtex_format=fmt, **kw)
    return before, mid, snap(lib), t1, t2, fb, dict(fmt.__dict__)


# ------------------------------------------------------------------ heap walk (native, on the final world)
def mutable_ids(root, eng):
    seen = {}
    stack = [root]
    while stack:
        v = stack.pop()
        if isinstance(v, (str, int, float, bool, type(None), SStr, SChar, SBool, SInt, type, tuple)) and not isinstance(v, tuple):
            continue
        if isinstance(v, tuple):
            stack.extend(v)
            continue
        if isinstance(v, BaseException):
            # the error object itself is shared on purpose (exceptions.py: immutables), but blocks, fields, lists, sets or
            # dicts that hang off it are ordinary mutable state of the library
            stack.extend(v.__dict__.values())
            continue
        if id(v) in seen:
            continue
        if isinstance(v, list):
            seen[id(v)] = v
            stack.extend(v)
        elif isinstance(v, dict):
            seen[id(v)] = v
            stack.extend(v.values())
        elif isinstance(v, (SSet, set)):
            seen[id(v)] = v
        elif isinstance(v, Stub):
            continue
        elif hasattr(v, "__dict__") and eng.world_owned_class(type(v)):
            seen[id(v)] = v
            stack.extend(v.__dict__.values())
    return seen


def shared(lib_in, out, eng):
    a = mutable_ids(lib_in, eng)
    b = mutable_ids(out, eng)
    return [type(a[i]).__name__ for i in a if i in b]


def conv_stub():
    def conv(I, W, self, args, kwargs):
        return mk(("<",) + chars(args[0]) + (">",))
    return Stub("converter", {"unicode_to_latex": conv, "latex_to_text": conv})


def sym_doc(eng, doc="main"):
    if doc == "noentries":
        # a library without a single entry (only @string / @preamble / comments + 2 symbolic characters)
        return mk(tuple("@string{s = {v}}\n@preamble{\"p\"}\n@comment{c}\nfree\n") + chars(eng.sym_str("t", 2, SIGMA_S)))
    if doc == "single":
        # a library of exactly ONE block (a shortcut for "nothing to do" must still hand out a copy)
        k1 = eng.sym_str("k1_", 1, "ab")
        nm = eng.sym_str("n", 1, "x,")
        return mk(tuple("@a{") + chars(k1) + tuple(", author = {A and B") + chars(nm) + tuple("}, month = 1, T = x}"))
    if doc == "empty":
        return mk(chars(eng.sym_str("t", 1, " \n")))      # white space only: a library without any block
    k1 = eng.sym_str("k1_", 1, "ab")
    k2 = eng.sym_str("k2_", 1, "ab")
    tail = eng.sym_str("t", 2, SIGMA_S)
    nm = eng.sym_str("n", 1, "x,")       # 'B,' (trailing comma) is an invalid name, 'Bx' a valid one
    text = mk(tuple("@string{s = {v}}\n@a{") + chars(k1) + tuple(", author = {A and B") + chars(nm) + tuple("}, month = 1, t = s}\n@a{") + chars(k2) +
              tuple(", T = x, t = y}\n@b{d, t = 1, t = 2}\n") + chars(tail))
    return text


def native_run(text, prep, stack, inplace):
    import logging
    logging.disable(logging.CRITICAL)

    class C:
        def unicode_to_latex(self, s):
            return "<" + s + ">"
        latex_to_text = unicode_to_latex
    import copy as _c
    lib = prepare(text, prep)
    ref = _c.deepcopy(lib)
    before = snap(lib)
    out = lib
    problems = []
    try:
        mw = None
        for name in stack:
            mw = mw if name == "=" else make_mw(name, inplace, C())
            if name == "=":
                lib = out
                before = snap(lib)
            out = mw.transform(out)
    except Exception as ex:  # noqa
        from pysym.harness import guard_repo_exception
        guard_repo_exception(ex)
        out = None
        if not inplace and not always_copy(stack):
            lib2 = prepare(text, prep)
            try:
                o2 = lib2
                m2 = None
                for name in stack:
                    m2 = m2 if name == "=" else make_mw(name, True, C())
                    o2 = m2.transform(o2)
                problems.append(f"copy mode raised {type(ex).__name__}: {ex} although the same stack works in place on this library")
            except Exception:  # noqa
                pass
    after = snap(lib)
    if before != after and (not inplace or always_copy(stack)):
        problems.append("input library changed")

    class E_:  # minimal engine stand-in for the walk
        @staticmethod
        def world_owned_class(t):
            return (getattr(t, "__module__", "") or "").startswith("bibtexparser")
    if out is not None:
        sh = shared(lib, out, E_)
        if sh:
            problems.append(f"output shares mutable objects with the input: {sorted(set(sh))}")
    return problems


def task(prep, stack, doc="main"):
    eng = Engine()
    rec = Recorder(eng)
    text = sym_doc(eng, doc)
    inplace = eng.sym_bool("inplace")
    stub = conv_stub()
    ctx = {}
    E = eng.I.models.eq_simple
    copy_required = lambda inp: (inp is False) or always_copy(stack)
    worlds = eng.run(drv, [text, prep, stack, inplace, stub, ctx])
    for W in worlds:
        ok, m = eng.query(W, True)
        if not ok:
            continue
        inp = eng.model_value(m, inplace)
        must_copy = (not inp) or always_copy(stack)

        def rp(m2, inp=inp):
            pr = native_run(eng.model_str(m2, text), prep, stack, eng.model_value(m2, inplace))
            if not pr:
                return None
            return {"input": [eng.model_str(m2, text), prep, stack, eng.model_value(m2, inplace)], "observed": pr, "expected": "no mutation, no aliasing"}
        if W.exc is not None:
            rec.require(W, True, "no-exception-outside-the-stack", rp)
            continue
        lib, out, before, after, raised = W.result
        if raised is not None:
            # the stack raised: fine if the transformation itself rejects this input (it also raises in place); the input
            # must be untouched either way.  Copy mode failing where in-place mode works is a failure to return a result.
            if must_copy:
                rec.require(W, b_not(E(before, after)), "input-unchanged", rp)
            if must_copy and not always_copy(stack) and not raised[1]:
                rec.require(W, True, "copy-mode-returns-a-result", rp)
            rec.witness("stack-rejected-input", W)
            continue
        if must_copy:
            rec.require(W, b_not(E(before, after)), "input-unchanged", rp)
            sh = shared(lib, out, eng)
            rec.require(W, True if sh else False, "no-aliasing", rp)
            rec.witness("copy-mode-world", W)
        else:
            if shared(lib, out, eng):
                rec.witness("inplace-mode-does-alias", W)
    rec.samples.append({"prepared by": prep, "stack": stack, "worlds": len(worlds)})
    rec.validated += 1
    return rec.result(worlds=len(worlds))


def task_write(prep, how="default"):
    eng = Engine()
    rec = Recorder(eng)
    text = sym_doc(eng)
    E = eng.I.models.eq_simple
    worlds = eng.run(drv_write, [text, prep, how])

    def rp(m):
        import logging
        logging.disable(logging.CRITICAL)
        t = eng.model_str(m, text)
        try:
            r = drv_write(t, prep, how)
        except Exception as ex:  # noqa
            from pysym.harness import guard_repo_exception
            guard_repo_exception(ex)
            return {"input": [t, prep], "observed": f"raised {type(ex).__name__}: {ex}", "expected": "text twice"}
        if r[0] == r[1] == r[2] and r[3] == r[4] and r[5] == r[6]:
            return None
        return {"input": [t, prep], "observed": {"library_changed": r[0] != r[2], "texts_differ": r[3] != r[4], "format_changed": r[5] != r[6]},
                "expected": "write_string is read-only and repeatable"}
    for W in worlds:
        if W.exc is not None:
            rec.require(W, True, "write-no-exception", rp)
            continue
        b, mid, a, t1, t2, fb, fa = W.result
        good = b_all([E(b, mid), E(b, a), E(t1, t2), set(fb) == set(fa), b_all(E(fb[k], fa[k]) for k in fb)])
        rec.require(W, b_not(good), "write-read-only-and-repeatable", rp)
        rec.witness("written-twice", W)
    return rec.result(worlds=len(worlds))


PREPS = {"raw": (), "default": ("resolve", "remove"), "separated": ("resolve", "remove", "separate"),
         "names": ("resolve", "remove", "separate", "splitnames")}


def main():
    chk = Check("C07", __doc__)
    chk.bounds = {"input libraries": "(also a library of exactly one block '@a{K1, author={A and BN}, month=1, T=x}', a library without any block, and an entry-free document: @string, @preamble, @comment, free text + 2 symbolic characters) parse of '@string{s={v}} @a{K1, author={A and BN}, month=1, t=s} (N symbolic: a valid or an invalid name) @a{K2, T=x, t=y} @b{d, t=1, t=2}' + 2 symbolic characters, K1/K2 symbolic over {a,b}; as split, after the default stack, and after name separation + splitting (list / NameParts values)",
                  "middlewares": NAMES, "stacks": "every single middleware on every prepared input; " + ("all ordered pairs" if chk.tier == "thorough" else "selected pairs") + " on the default-stack input",
                  "allow_inplace_modification": "symbolic boolean"}
    chk.assumptions = ["exception objects stored in failed blocks are shared on purpose (immutables, exceptions.py); the walk does not count the error object itself but does follow its attributes",
                       "LaTeX middlewares run with a stub converter; user-defined middleware is outside the claim",
                       "a stack that raises is accepted only when the transformation itself rejects the input, i.e. the same stack also raises in in-place mode on a fresh copy of the library (SplitNameParts on a plain string ...); the input must be untouched either way"]
    chk.stubs = ["pylatexenc converter -> '<' + s + '>'"]
    chk.expected_vacuity = ["copy-mode-world", "inplace-mode-does-alias", "written-twice"]
    for pn, prep in PREPS.items():
        for name in NAMES:
            chk.add_task(f"{pn}-{name}", task, prep=prep, stack=(name,))
        for how in ("default", "empty-prepend", "copy-prepend", "stack", "raising"):
            if pn in ("raw", "default"):
                chk.add_task(f"write-{pn}-{how}", task_write, prep=prep, how=how)
        if pn == "names":
            chk.add_task(f"write-{pn}-merge-prepend", task_write, prep=prep, how="merge-prepend")
            chk.add_task(f"write-{pn}-merge-prepend-same", task_write, prep=prep, how="merge-prepend-same")
        if pn == "default":
            chk.add_task(f"write-{pn}-copy-prepend-same", task_write, prep=prep, how="copy-prepend-same")
            chk.add_task(f"write-{pn}-stack-same", task_write, prep=prep, how="stack-same")
    pairs = list(itertools.permutations(NAMES, 2)) if chk.tier == "thorough" else [
        ("remove", "addq"), ("separate", "splitnames"), ("splitnames", "mergeparts"), ("monthint", "monthlong"), ("normkeys", "sortalpha"),
        ("sortblocks", "remove"), ("remove", "sortblocks"), ("latexenc", "latexdec"), ("resolve", "sortcustom"), ("add{", "sortblocks2"),
        ("mergeparts", "splitnames"), ("mergeco", "separate")]
    # libraries without any entry
    for name in NAMES:
        for pn in ("raw", "default"):
            chk.add_task(f"noentries-{pn}-{name}", task, prep=PREPS[pn], stack=(name,), doc="noentries")
            chk.add_task(f"single-{pn}-{name}", task, prep=PREPS[pn], stack=(name,), doc="single")
        chk.add_task(f"empty-raw-{name}", task, prep=PREPS["raw"], stack=(name,), doc="empty")
    pairs = pairs + [(n, "=") for n in NAMES]       # the same instance applied to its own result
    for a, b in pairs:
        prep = PREPS["default"]
        if a == "splitnames":
            prep = PREPS["separated"]
        elif a in ("mergeparts",):
            prep = PREPS["names"]
        elif a == "mergeco":
            prep = PREPS["separated"]
        chk.add_task(f"pair-{a}-{b}", task, prep=prep, stack=(a, b))
    chk.run()


if __name__ == "__main__":
    main()
