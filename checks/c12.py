"""C12 — co-author splitting loses nothing and splits only at top-level ' and '.

Encoded (real bytecode, interpreted): bibtexparser.middlewares.names.split_multiple_persons_names.
Symbolic: the whole string, every length 0..L over the alphabet SIGMA.
Obligations per final world:
  conservation  pieces are contiguous runs of input characters in order; every gap around them is
                whitespace and every gap between two pieces is ws+ [aA][nN][dD] ws+
  idempotence   split(' and '.join(pieces)) == pieces
  exact         (brace-balanced inputs) result == reference splitter written from the statement
"""
import os
import sys
import itertools
import z3

from pysym.engine import Engine
from pysym.values import *  # noqa
from pysym.harness import Check, Recorder

from bibtexparser.middlewares import names as N

SIGMA = " \nandAx\\{},~"
WS = " \t\r\n"


# ----------------------------------------------------------------------------- reference (from the statement)
def ref_split(s):
    n = len(s)
    lo = 0
    hi = n
    while lo < hi and s[lo] in WS:
        lo += 1
    while hi > lo and s[hi - 1] in WS:
        hi -= 1
    kinds = []
    i = 0
    while i < lo:
        kinds.append("w")
        i += 1
    depth = 0
    esc = False
    while i < hi:
        c = s[i]
        if esc:
            kinds.append("x")
            esc = False
        elif c == "\\":
            kinds.append("x")
            esc = True
        elif c == "{":
            depth += 1
            kinds.append("x")
        elif c == "}":
            if depth > 0:
                depth -= 1
            kinds.append("x")
        elif depth > 0:
            kinds.append("x")
        elif c in WS:
            kinds.append("w")
        else:
            kinds.append("c")
        i += 1
    pieces = []
    if lo == hi:
        return pieces
    start = lo
    i = lo
    while i < hi:
        if kinds[i] == "w" and i > start:
            j = i
            while j < hi and kinds[j] == "w":
                j += 1
            if (j + 3 < hi and kinds[j] == "c" and kinds[j + 1] == "c" and kinds[j + 2] == "c" and kinds[j + 3] == "w"
                    and s[j] in "aA" and s[j + 1] in "nN" and s[j + 2] in "dD"):
                k = j + 3
                while k < hi and kinds[k] == "w":
                    k += 1
                if k < hi:
                    pieces.append(s[start:i])
                    start = k
                    i = k
                    continue
            i = j
            continue
        i += 1
    pieces.append(s[start:hi])
    return pieces


def balanced(s):
    depth = 0
    esc = False
    for c in s:
        if esc:
            esc = False
        elif c == "\\":
            esc = True
        elif c == "{":
            depth += 1
        elif c == "}":
            if depth == 0:
                return False
            depth -= 1
    return depth == 0


def drv_a(s):
    pieces = N.split_multiple_persons_names(s)
    again = N.split_multiple_persons_names(" and ".join(pieces))
    return pieces, again


def drv_recall(s):
    """the caller may edit the returned list; a later call on the same text must not be affected"""
    first = N.split_multiple_persons_names(s)
    keep = list(first)
    first.clear()
    first.append("edited")
    return keep, N.split_multiple_persons_names(s)


def drv_mwpair(s):
    """the shipped pair: SeparateCoAuthors, MergeCoAuthors, SeparateCoAuthors again gives the same pieces"""
    from bibtexparser.model import Entry, Field
    from bibtexparser.library import Library
    e = Entry("article", "k", [Field("author", s)])
    N.SeparateCoAuthors(True).transform(Library([e]))
    first = list(e.fields[0].value)
    N.MergeCoAuthors(True).transform(Library([e]))
    merged = e.fields[0].value
    N.SeparateCoAuthors(True).transform(Library([e]))
    return first, merged, list(e.fields[0].value)


def drv_c(s):
    bal = balanced(s)
    if not bal:
        return None
    return N.split_multiple_persons_names(s), ref_split(s)


# ----------------------------------------------------------------------------- native oracles (replay)
def native_conservation(s, pieces):
    import re
    pos = 0
    spans = []
    for p in pieces:
        if not isinstance(p, str):
            return False
        i = s.find(p, pos) if p else -1
        # must be the contiguous run directly after an allowed gap
        ok = False
        for a in range(pos, len(s) + 1):
            if s[a:a + len(p)] == p and len(p) > 0:
                gap = s[pos:a]
                if not spans:
                    good = all(ch in WS for ch in gap)
                else:
                    good = re.fullmatch(r"[ \t\r\n]+[aA][nN][dD][ \t\r\n]+", gap) is not None
                if good:
                    spans.append((a, a + len(p)))
                    pos = a + len(p)
                    ok = True
                    break
        if not ok:
            return False
    return all(ch in WS for ch in s[pos:])


def replay(s, which):
    import logging
    logging.disable(logging.CRITICAL)
    try:
        pieces = N.split_multiple_persons_names(s)
    except Exception as e:  # noqa
        from pysym.harness import guard_repo_exception
        guard_repo_exception(e)
        return {"input": s, "observed": f"raised {type(e).__name__}: {e}", "expected": "list of pieces"}
    if which == "conservation":
        if native_conservation(s, pieces):
            return None
        return {"input": s, "observed": pieces, "expected": "contiguous pieces whose gaps are ws / ws+and+ws"}
    if which == "idempotence":
        again = N.split_multiple_persons_names(" and ".join(pieces))
        if again == pieces:
            return None
        return {"input": s, "observed": {"pieces": pieces, "resplit": again}, "expected": "resplit == pieces"}
    if which == "exact":
        if not balanced(s):
            return None
        ref = ref_split(s)
        if ref == pieces:
            return None
        return {"input": s, "observed": pieces, "expected": ref}
    raise AssertionError(which)


# ----------------------------------------------------------------------------- tasks
def ws_cond(c):
    return b_any(ch_eq(c, w) for w in WS)


def drv_a1(s):
    return N.split_multiple_persons_names(s), None


def sym_input(eng, L, prefix, sigma=None):
    """string of length L whose first len(prefix) characters are pinned (one task per prefix)"""
    return mk([eng.sym_char(f"c{i}", prefix[i] if i < len(prefix) else (sigma or SIGMA)) for i in range(L)])


def task_a(L, prefix="", idem=True, tmpl=None, sigma=None):
    eng = Engine()
    rec = Recorder(eng)
    s = sym_input(eng, L, prefix, sigma) if tmpl is None else tmpl_input(eng, tmpl, prefix)
    L = len(chars(s))
    cs = chars(s)
    pos_of = {c.var.idx: i for i, c in enumerate(cs)} if L else {}
    worlds = eng.run(drv_a if idem else drv_a1, [s])
    nval = 0
    for W in worlds:
        if W.exc is not None:
            rec.require(W, True, "no-exception", lambda m: replay(eng.model_str(m, s), "conservation"))
            continue
        pieces, again = W.result
        # --- conservation
        spans = []
        structural_ok = True
        cur = 0
        for p in pieces:
            pc = chars(p) if is_strlike(p) else None
            if pc is None or len(pc) == 0 or any(isinstance(c, str) or c.fmap is not None or c.var.idx not in pos_of for c in pc):
                structural_ok = False
                break
            idx = [pos_of[c.var.idx] for c in pc]
            if idx != list(range(idx[0], idx[0] + len(idx))) or idx[0] < cur:
                structural_ok = False
                break
            spans.append((idx[0], idx[-1] + 1))
            cur = idx[-1] + 1
        if not structural_ok:
            bad = True
        else:
            conds = []
            cur = 0
            for k, (a, b) in enumerate(spans + [(L, L)]):
                gap = cs[cur:a]
                cur = b
                if k == 0 or k == len(spans):
                    conds.append(b_all(ws_cond(c) for c in gap))
                else:
                    alts = False
                    for i in range(1, len(gap) - 3):
                        pre, mid, post = gap[:i], gap[i:i + 3], gap[i + 3:]
                        alts = b_or(alts, b_all([ws_cond(c) for c in pre + post] +
                                                [b_or(ch_eq(mid[0], "a"), ch_eq(mid[0], "A")),
                                                 b_or(ch_eq(mid[1], "n"), ch_eq(mid[1], "N")),
                                                 b_or(ch_eq(mid[2], "d"), ch_eq(mid[2], "D"))]))
                    conds.append(alts)
            if not spans:
                conds = [b_all(ws_cond(c) for c in cs)]
            bad = b_not(b_all(conds))
        rec.require(W, bad, "conservation", lambda m: replay(eng.model_str(m, s), "conservation"))
        # --- idempotence
        if idem:
            same = eng.I.models.eq_simple(pieces, again)
            rec.require(W, b_not(same), "idempotence", lambda m: replay(eng.model_str(m, s), "idempotence"))
        if len(pieces) >= 2:
            rec.witness("a-split-happened", W)
        # --- sample validation against the real function
        if nval < 25:
            ok, m = eng.query(W, True)
            if ok:
                inp = eng.model_str(m, s)
                got = eng.model_value(m, pieces)
                exp = N.split_multiple_persons_names(inp)
                if got != exp:
                    rec.violations.append({"kind": "nonreproducing", "tag": "engine-vs-native", "input": inp, "engine": got, "native": exp})
                rec.validated += 1
                nval += 1
                if len(rec.samples) < 3:
                    rec.samples.append({"input": inp, "pieces": exp})
    return rec.result(L=L, worlds=len(worlds))


SIGMA_T = "{}\\ x~,"


def tmpl_input(eng, lens, prefix):
    """X1 + ' and ' + X2 (+ ' and ' + X3): the separator words are literal, the surroundings are symbolic (deeper
    brace/escape nesting; a name that *starts* with a brace or an escape right after a separator)"""
    cs = []
    first = True
    for l in lens:
        if not first:
            for ch in " and ":
                cs.append(eng.sym_char(f"c{len(cs)}", ch))
        for i in range(l):
            cs.append(eng.sym_char(f"c{len(cs)}", prefix[i] if first and i < len(prefix) else SIGMA_T))
        first = False
    return mk(cs)


def task_recall(L, sigma):
    eng = Engine()
    rec = Recorder(eng)
    s = eng.sym_str("c", L, sigma)
    E = eng.I.models.eq_simple

    def rp(m):
        t = eng.model_str(m, s)
        try:
            keep, again = drv_recall(t)
        except Exception as e:  # noqa
            from pysym.harness import guard_repo_exception
            guard_repo_exception(e)
            return {"input": t, "observed": f"raised {type(e).__name__}: {e}", "expected": "pieces"}
        if keep == again and native_conservation(t, keep):
            return None
        return {"input": t, "observed": {"first call": keep, "second call after editing the first result": again}, "expected": "the same pieces"}
    worlds = eng.run(drv_recall, [s])
    for W in worlds:
        if W.exc is not None:
            rec.require(W, True, "no-exception", rp)
            continue
        keep, again = W.result
        rec.require(W, b_not(E(keep, again)), "calls-are-independent", rp)
    return rec.result(L=L, worlds=len(worlds))


def task_mwpair(L, sigma):
    eng = Engine()
    rec = Recorder(eng)
    s = eng.sym_str("c", L, sigma)
    E = eng.I.models.eq_simple
    worlds = eng.run(drv_mwpair, [s])

    def rp(m):
        import logging
        logging.disable(logging.CRITICAL)
        t = eng.model_str(m, s)
        try:
            a, mg, b = drv_mwpair(t)
        except Exception as ex:  # noqa
            from pysym.harness import guard_repo_exception
            guard_repo_exception(ex)
            return {"input": t, "observed": f"raised {type(ex).__name__}: {ex}", "expected": "pieces"}
        if a == b:
            return None
        return {"input": t, "observed": {"pieces": a, "merged": mg, "split again": b}, "expected": "the same pieces"}
    for W in worlds:
        if W.exc is not None:
            rec.require(W, True, "no-exception", rp)
            continue
        a, mg, b = W.result
        rec.require(W, b_not(E(a, b)), "idempotence-through-the-middlewares", rp)
        if len(a) >= 2:
            rec.witness("a-split-happened", W)
    return rec.result(L=L, worlds=len(worlds))


def task_c(L, prefix="", tmpl=None, sigma=None):
    eng = Engine()
    eng.interpret_also(ref_split, balanced)
    rec = Recorder(eng)
    s = sym_input(eng, L, prefix, sigma) if tmpl is None else tmpl_input(eng, tmpl, prefix)
    worlds = eng.run(drv_c, [s])
    for W in worlds:
        if W.exc is not None:
            rec.require(W, True, "no-exception", lambda m: replay(eng.model_str(m, s), "exact"))
            continue
        if W.result is None:
            continue
        impl, ref = W.result
        same = eng.I.models.eq_simple(impl, ref)
        rec.require(W, b_not(same), "exact", lambda m: replay(eng.model_str(m, s), "exact"))
        if len(ref) >= 2:
            rec.witness("balanced-input-with-split", W)
    return rec.result(L=L, worlds=len(worlds))


def conformance():
    """concrete-mode conformance of the engine on the repository's own name-list test inputs"""
    import ast, inspect, os
    src = open(os.environ.get("VERIF_REPO", "/repo") + "/tests/middleware_tests/test_names.py").read()
    strs = sorted({n.value for n in ast.walk(ast.parse(src)) if isinstance(n, ast.Constant) and isinstance(n.value, str) and len(n.value) < 120})
    eng = Engine()
    eng.interpret_also(ref_split, balanced)
    n = bad = 0
    for t in strs:
        ws = eng.run(N.split_multiple_persons_names, [t])
        assert len(ws) == 1
        exp = N.split_multiple_persons_names(t)
        if ws[0].exc is not None or ws[0].result != exp:
            bad += 1
        n += 1
    return n, bad


def main():
    chk = Check("C12", __doc__)
    LA, LI, LC = (11, 9, 9) if chk.tier == "quick" else (13, 11, 11)
    chk.bounds = {"alphabet": SIGMA, "conservation: all strings of length": f"0..{LA}",
                  "idempotence: all strings of length": f"0..{LI}",
                  "exact rule vs reference: all brace-balanced strings of length": f"0..{LC}"}
    chk.assumptions = [
        f"input characters range over the alphabet {SIGMA!r} (13 symbols incl. space, newline, both cases of 'and' letters via a/A,n,d, backslash, braces, comma, tilde); other characters are outside the claim",
        f"lengths above the bound are outside the claim",
        "whitespace = space, tab, CR, LF (the function's own definition); tab/CR occur in the whitespace family only",
        "reference splitter (checks/c12.py:ref_split) is the executable reading of the statement: leftmost-first, separator = ws+ and ws+ of plain depth-0 unescaped characters with a non-empty name on both sides",
    ]
    chk.expected_vacuity = ["a-split-happened", "balanced-input-with-split"]
    n, bad = conformance()
    chk.conformance = n
    if bad:
        print(f"engine/native mismatch on {bad} of {n} concrete corpus strings")
        sys.exit(2)
    def spread(kind, fn, L, top, **kw):
        # the two largest lengths are split over the first character (one task per letter)
        if L >= top - 1 and L >= 1:
            for a in SIGMA:
                chk.add_task(f"{kind}-L{L}-{a!r}", fn, L=L, prefix=a, **kw)
        else:
            chk.add_task(f"{kind}-L{L}", fn, L=L, **kw)
    for L in range(LA, LI, -1):
        spread("conserve", task_a, L, LA, idem=False)
    for L in range(LI, -1, -1):
        spread("conserve+idem", task_a, L, LI)
    for L in range(LC, -1, -1):
        spread("exact", task_c, L, LC)
    # a character whose lower-casing changes the string length (U+0130), and calls repeated after the caller edited a result
    SIGMA_I = " andA\u0130\u00dfx{"       # U+0130: lower() gives two characters; U+00DF: casefold() gives two
    chk.bounds["length-changing case family"] = f"all strings of length 0..7 over {SIGMA_I!r} (conservation, idempotence, repeated call)"
    for L in range(7, -1, -1):
        chk.add_task(f"recall-L{L}", task_recall, L=L, sigma=SIGMA_I)
        chk.add_task(f"conserve-I-L{L}", task_a, L=L, sigma=SIGMA_I, idem=(L <= 6))
    # separator-centred family: X1 ' and ' X2
    LT = 4 if chk.tier == "quick" else 5
    chk.bounds["separator-centred family"] = f"X1 + ' and ' + X2, |X1|,|X2| <= {LT} over {SIGMA_T!r} (all three obligations)"
    for l1 in range(LT, 0, -1):
        for l2 in range(LT, 0, -1):
            if l1 == LT and l2 >= LT - 1:
                for a in SIGMA_T:
                    chk.add_task(f"tmpl-exact-{l1}+{l2}-{a!r}", task_c, L=0, prefix=a, tmpl=(l1, l2))
                    chk.add_task(f"tmpl-conserve-{l1}+{l2}-{a!r}", task_a, L=0, prefix=a, tmpl=(l1, l2), idem=(l1 + l2 <= 2 * LT - 2))
            else:
                chk.add_task(f"tmpl-exact-{l1}+{l2}", task_c, L=0, tmpl=(l1, l2))
                chk.add_task(f"tmpl-conserve-{l1}+{l2}", task_a, L=0, tmpl=(l1, l2), idem=(l1 + l2 <= 2 * LT - 2))
    # two separators: X1 ' and ' X2 ' and ' X3 (a separator word inside a name that starts with a brace / an escape)
    L3 = 2 if chk.tier == "quick" else 3
    chk.bounds["two-separator family"] = f"X1 + ' and ' + X2 + ' and ' + X3, |Xi| <= {L3} over {SIGMA_T!r} (all three obligations)"
    for l1, l2, l3 in itertools.product(range(L3, -1, -1), repeat=3):
        chk.add_task(f"tmpl3-exact-{l1}+{l2}+{l3}", task_c, L=0, tmpl=(l1, l2, l3))
        chk.add_task(f"tmpl3-conserve-{l1}+{l2}+{l3}", task_a, L=0, tmpl=(l1, l2, l3), idem=True)
    # idempotence through the shipped middleware pair
    SIGMA_M = " andx\\{}"
    LM = 7 if chk.tier == "quick" else 9
    chk.bounds["through SeparateCoAuthors / MergeCoAuthors"] = f"all strings of length 0..{LM} over {SIGMA_M!r}: separate, merge, separate gives the same pieces"
    for L in range(LM, -1, -1):
        chk.add_task(f"mwpair-L{L}", task_mwpair, L=L, sigma=SIGMA_M)
    # every whitespace character the function knows (tab and CR are not in the main alphabet)
    SIGMA_W = " \t\r\nandx"
    LW = 8 if chk.tier == "quick" else 10
    chk.bounds["whitespace family"] = f"all strings of length 0..{LW} over {SIGMA_W!r} (all three obligations)"
    for L in range(LW, -1, -1):
        chk.add_task(f"ws-exact-L{L}", task_c, L=L, sigma=SIGMA_W)
        chk.add_task(f"ws-conserve-L{L}", task_a, L=L, sigma=SIGMA_W, idem=(L <= LW - 1))
    chk.run()


if __name__ == "__main__":
    main()
