"""C18 — LaTeX en/decoding touches only text values and contains errors (round trip NOT covered).

Encoded: _PyStringTransformerMiddleware.transform_entry / transform_string / _transform_all_strings,
LatexEncodingMiddleware / LatexDecodingMiddleware: constructor option validation (custom converter vs.
options), _transform_python_value_string (try/except around the converter), BlockMiddleware.transform /
transform_block (incl. interpreted deepcopy when allow_inplace_modification=False), MiddlewareErrorBlock,
PartialMiddlewareException, Library.
Stub: the third-party pylatexenc converter is replaced by a nondeterministic function: every call
either returns '<' + input + '>' or raises an Exception, chosen by a fresh symbolic boolean.
Not claimed here: decode(encode(t)) == t (it is decided entirely inside pylatexenc; DESIGN §6).
"""
import sys
import itertools

from pysym.engine import Engine
from pysym.values import *  # noqa
from pysym.interp import PyRaise
from pysym.models import Stub
from pysym.harness import Check, Recorder

from bibtexparser.middlewares.latex_encoding import LatexEncodingMiddleware, LatexDecodingMiddleware
from bibtexparser.middlewares.names import NameParts
from bibtexparser import model as M
from bibtexparser.library import Library


def make_stub(eng, method):
    """deterministic converter: fails exactly on inputs starting with 'y', otherwise returns '<' + input + '>'.
    (Being a function of its input, any caching inside the middleware must be transparent.)"""
    def conv(I, W, self, args, kwargs):
        s = args[0]
        if not is_strlike(s):
            raise PyRaise(TypeError("converter expects a string"))
        cs = chars(s)
        if len(cs) > 0 and I.truth(W, ch_eq(cs[0], "y")):
            raise PyRaise(RuntimeError("converter failed"))
        return mk(("<",) + cs + (">",))
    return Stub("converter", {method: conv})


def drv(mw, vals, inplace):
    e = M.Entry("article", "ek", [M.Field("title", vals[0]), M.Field("year", 1999),
                                  M.Field("author", NameParts(first=[vals[1]], last=[vals[2], vals[3]])),
                                  M.Field("note", vals[4]), M.Field("pages", [10, 25]), M.Field("tags", [vals[7], "q"])], 3, "rawE")
    s = M.String("sk", vals[5], 1, "rawS")
    p = M.Preamble(vals[6], 2, "rawP")
    c = M.ExplicitComment("cc", 4, "rawC")
    f = M.ParsingFailedBlock(Exception("x"), 5, "rawF")
    lib = Library([s, p, e, c, f])
    mw._allow_inplace_modification = inplace
    out = mw.transform(lib)
    return out.blocks, None, (s, p, e, c, f)


def check(res, vals, inplace, E):
    blocks, _log, orig = res
    s0, p0, e0, c0, f0 = orig
    conds = [len(blocks) == 5]
    if len(blocks) != 5:
        return conds, False
    s, p, e, c, f = blocks
    fails = [b_and(True, ch_eq(chars(v)[0], "y")) if len(chars(v)) else False for v in vals]

    def converted(got, i):
        """got is vals[i] if the converter fails on it, else the marked copy"""
        if not is_strlike(got):
            return False
        wrapped = mk(("<",) + chars(vals[i]) + (">",))
        return b_or(b_and(fails[i], E(got, vals[i])), b_and(b_not(fails[i]), E(got, wrapped)))
    # untouched blocks
    conds.append(isinstance(p, M.Preamble) and E(p.value, vals[6]) and p.raw == "rawP" and p.start_line == 2)
    conds.append(isinstance(c, M.ExplicitComment) and c.comment == "cc" and c.raw == "rawC" and c.start_line == 4)
    conds.append(isinstance(f, M.ParsingFailedBlock) and f.raw == "rawF" and f.start_line == 5)
    if inplace:
        conds.append(p is p0 and c is c0)
    else:
        conds.append(p is not p0 and c is not c0 and E(p0.value, vals[6]))
    # string block
    sb = s.ignore_error_block if isinstance(s, M.MiddlewareErrorBlock) else s
    conds.append(isinstance(sb, M.String) and sb.key == "sk" and sb.raw == "rawS" and sb.start_line == 1)
    if isinstance(sb, M.String):
        conds.append(converted(sb.value, 5))
    s_err = isinstance(s, M.MiddlewareErrorBlock)
    conds.append(fails[5] if s_err else b_not(fails[5]))
    # entry
    e_failed = b_any(fails[i] for i in (0, 1, 2, 3, 4))
    eb = e.ignore_error_block if isinstance(e, M.MiddlewareErrorBlock) else e
    e_err = isinstance(e, M.MiddlewareErrorBlock)
    conds.append(e_failed if e_err else b_not(e_failed))
    ok = (isinstance(eb, M.Entry) and eb.entry_type == "article" and eb.key == "ek" and eb.raw == "rawE" and eb.start_line == 3
          and [x.key for x in eb.fields] == ["title", "year", "author", "note", "pages", "tags"])
    conds.append(ok)
    if ok:
        t, y, a, n, pg, tg = [x.value for x in eb.fields]
        conds.append(converted(t, 0))
        conds.append(y == 1999 and type(y) is int)
        conds.append(isinstance(a, NameParts) and len(a.first) == 1 and len(a.last) == 2 and a.von == [] and a.jr == []
                     and b_all([converted(a.first[0], 1), converted(a.last[0], 2), converted(a.last[1], 3)]))
        conds.append(converted(n, 4))
        # list-valued fields are neither str nor NameParts: left alone
        conds.append(isinstance(pg, list) and pg == [10, 25])
        conds.append(isinstance(tg, list) and len(tg) == 2 and E(tg, [vals[7], "q"]))
        if e_err:
            conds.append(isinstance(e.error, Exception) and e.raw == "rawE" and e.start_line == 3)
    if not inplace:
        conds.append(E([x.value for x in e0.fields if is_strlike(x.value)], [vals[0], vals[4]]) and E(s0.value, vals[5]))
    return conds, (e_err or s_err)


def native_replay(kind, vals, inplace):
    """replay with a concrete converter implementing the same function of its input"""
    import logging
    logging.disable(logging.CRITICAL)

    class Conv:
        def _do(self, s):
            if not isinstance(s, str):
                raise TypeError("converter expects a string")
            if s.startswith("y"):
                raise RuntimeError("converter failed")
            return "<" + s + ">"
        unicode_to_latex = _do
        latex_to_text = _do
    try:
        mw = LatexEncodingMiddleware(encoder=Conv()) if kind == "enc" else LatexDecodingMiddleware(decoder=Conv())
        res = drv(mw, vals, inplace)
    except Exception as ex:  # noqa
        return {"input": [kind, vals, inplace], "observed": f"raised {type(ex).__name__}: {ex}", "expected": "error block, no exception"}
    conds, _ = check(res, vals, inplace, lambda a, b: a == b)
    if all((c is True) or (not isinstance(c, bool) and False) or bool(c) for c in conds):
        return None
    blocks = res[0]
    return {"input": [kind, vals, inplace],
            "observed": [(type(b).__name__, repr(getattr(getattr(b, "ignore_error_block", b), "value", None))) for b in blocks[:1]] +
                        [(type(blocks[2]).__name__, [(f.key, repr(f.value)) for f in getattr(blocks[2], "ignore_error_block", blocks[2]).fields])],
            "expected": "only text values converted (converter fails on values starting with 'y'), types kept, failures contained"}


def task(kind, inplace):
    eng = Engine()
    rec = Recorder(eng)
    vals = [eng.sym_str(f"v{i}_", 1, "xy") for i in range(8)]
    if kind == "enc":
        stub = make_stub(eng, "unicode_to_latex")
        mw = LatexEncodingMiddleware(encoder=stub)
    else:
        stub = make_stub(eng, "latex_to_text")
        mw = LatexDecodingMiddleware(decoder=stub)
    E = eng.I.models.eq_simple
    worlds = eng.run(drv, [mw, vals, inplace])
    for W in worlds:
        def rp(m):
            return native_replay(kind, eng.model_value(m, vals), inplace)
        if W.exc is not None:
            rec.require(W, True, "no-exception", rp)
            continue
        conds, failed = check(W.result, vals, inplace, E)
        rec.require(W, b_not(b_all(conds)), "scope-types-containment", rp)
        rec.witness("converter-failed" if failed else "all-converted", W)
    if worlds:
        rec.samples.append({"kind": kind, "inplace": inplace, "worlds": len(worlds)})
        rec.validated += 1
    return rec.result(worlds=len(worlds))


def task_ctor():
    """constructor option validation, concrete (interpreted)"""
    eng = Engine()
    rec = Recorder(eng)
    stub = Stub("converter", {})

    def ctor(cls, kw):
        try:
            cls(**kw)
            return "ok"
        except ValueError:
            return "ValueError"
    cases = [(LatexEncodingMiddleware, {"encoder": stub}, "ok"), (LatexEncodingMiddleware, {"encoder": stub, "keep_math": True}, "ValueError"),
             (LatexEncodingMiddleware, {"encoder": stub, "enclose_urls": False}, "ValueError"),
             (LatexDecodingMiddleware, {"decoder": stub}, "ok"), (LatexDecodingMiddleware, {"decoder": stub, "keep_braced_groups": True}, "ValueError"),
             (LatexDecodingMiddleware, {"decoder": stub, "keep_math_mode": False}, "ValueError")]
    for cls, kw, exp in cases:
        ws = eng.run(ctor, [cls, kw])
        for W in ws:
            rec.require(W, not (W.exc is None and W.result == exp), "constructor-validation",
                        lambda m: {"input": [cls.__name__, sorted(kw)], "observed": str(W.result or W.exc), "expected": exp})
    return rec.result()


def main():
    chk = Check("C18", __doc__)
    chk.bounds = {"library": "String, Preamble, Entry(str, int, NameParts(first 1 word, last 2 words), str, list of ints, list of str), ExplicitComment, ParsingFailedBlock; every text one symbolic character",
                  "converter": "a function of its input: raises on values starting with 'y', else returns '<'+input+'>' (values are symbolic over {x,y}, so all 2^6 failure patterns and all equal-value patterns occur)",
                  "options": "encoder / decoder middleware x allow_inplace_modification in {True, False}; custom converter vs. option conflicts in the constructors"}
    chk.assumptions = ["the pylatexenc conversion itself is a stub: what it returns is arbitrary, so the round-trip clause decode(encode(t)) == t is NOT claimed (not encodable within reach: third-party, table/regex driven)",
                       "default-constructed middlewares (which build pylatexenc objects) are not interpreted; only the custom-converter path of the constructors is"]
    chk.stubs = ["pylatexenc UnicodeToLatexEncoder.unicode_to_latex / LatexNodes2Text.latex_to_text -> nondeterministic stub"]
    chk.expected_vacuity = ["converter-failed", "all-converted"]
    for kind, inplace in itertools.product(("enc", "dec"), (True, False)):
        chk.add_task(f"{kind}-inplace{int(inplace)}", task, kind=kind, inplace=inplace)
    chk.add_task("constructors", task_ctor)
    chk.run()


if __name__ == "__main__":
    main()
