"""C18 — LaTeX en/decoding touches only text values and contains errors (round trip NOT covered).

Encoded: _PyStringTransformerMiddleware.transform_entry / transform_string / _transform_all_strings,
LatexEncodingMiddleware / LatexDecodingMiddleware: constructor option validation (custom converter vs.
options), _transform_python_value_string (try/except around the converter), BlockMiddleware.transform /
transform_block (incl. interpreted deepcopy when allow_inplace_modification=False), MiddlewareErrorBlock,
PartialMiddlewareException, Library.
Stub: the third-party pylatexenc converter is replaced by a nondeterministic function: every call
either returns '<' + input + '>' or raises an Exception, chosen by a fresh symbolic boolean.
Not claimed here: decode(encode(t)) == t (it is decided entirely inside pylatexenc; DESIGN §6).
"""
import sys
import itertools

from pysym.engine import Engine
from pysym.values import *  # noqa
from pysym.interp import PyRaise
from pysym.models import Stub
from pysym.harness import Check, Recorder

from bibtexparser.middlewares.latex_encoding import LatexEncodingMiddleware, LatexDecodingMiddleware
from bibtexparser.middlewares.names import NameParts
from bibtexparser import model as M
from bibtexparser.library import Library


def make_stub(eng, method):
    def conv(I, W, self, args, kwargs):
        s = args[0]
        n = len(self.log)
        b = eng.stub_bools[n] if n < len(eng.stub_bools) else None
        if b is None:
            raise AssertionError("stub called more often than planned")
        if I.truth(W, b):
            self.log.append((s, "raise"))
            W.mut += 1
            raise PyRaise(RuntimeError("converter failed"))
        self.log.append((s, "ok"))
        W.mut += 1
        return mk(("<",) + chars(s) + (">",))
    return Stub("converter", {method: conv})


def drv(mw, vals, inplace):
    e = M.Entry("article", "ek", [M.Field("title", vals[0]), M.Field("year", 1999),
                                  M.Field("author", NameParts(first=[vals[1]], last=[vals[2], vals[3]])),
                                  M.Field("note", vals[4])], 3, "rawE")
    s = M.String("sk", vals[5], 1, "rawS")
    p = M.Preamble(vals[6], 2, "rawP")
    c = M.ExplicitComment("cc", 4, "rawC")
    f = M.ParsingFailedBlock(Exception("x"), 5, "rawF")
    lib = Library([s, p, e, c, f])
    mw._allow_inplace_modification = inplace
    out = mw.transform(lib)
    return out.blocks, mw._encoder.log if hasattr(mw, "_encoder") else mw._decoder.log, (s, p, e, c, f)


def check(res, vals, inplace, E):
    blocks, log, orig = res
    s0, p0, e0, c0, f0 = orig
    conds = [len(blocks) == 5]
    if len(blocks) != 5:
        return conds, False
    s, p, e, c, f = blocks
    # the converter is called once per text value, in library order: @string value, then the entry's
    # title, the name parts (first, last...), note; never for the preamble / comments / keys
    order = [5, 0, 1, 2, 3, 4]
    conds.append(len(log) == len(order))
    outcomes = {}
    for pos, (inp, oc) in enumerate(log[:len(order)]):
        conds.append(E(inp, vals[order[pos]]))
        outcomes[order[pos]] = oc
    exp = lambda i: (mk(("<",) + chars(vals[i]) + (">",)) if outcomes.get(i) == "ok" else vals[i])
    # the preamble text (vals[6]) must never reach the converter; every text value exactly once
    # untouched blocks
    conds.append(isinstance(p, M.Preamble) and E(p.value, vals[6]) and p.raw == "rawP" and p.start_line == 2)
    conds.append(isinstance(c, M.ExplicitComment) and c.comment == "cc" and c.raw == "rawC" and c.start_line == 4)
    conds.append(isinstance(f, M.ParsingFailedBlock) and f.raw == "rawF" and f.start_line == 5)
    if inplace:
        conds.append(p is p0 and c is c0)
    else:
        conds.append(p is not p0 and c is not c0 and E(p0.value, vals[6]))
    # string block
    s_failed = outcomes.get(5) == "raise"
    sb = s.ignore_error_block if isinstance(s, M.MiddlewareErrorBlock) else s
    conds.append(isinstance(sb, M.String) and sb.key == "sk" and sb.raw == "rawS" and sb.start_line == 1)
    if isinstance(sb, M.String):
        conds.append(is_strlike(sb.value) and E(sb.value, exp(5)))
    conds.append(isinstance(s, M.MiddlewareErrorBlock) == s_failed)
    # entry
    e_failed = any(outcomes.get(i) == "raise" for i in (0, 1, 2, 3, 4))
    eb = e.ignore_error_block if isinstance(e, M.MiddlewareErrorBlock) else e
    conds.append(isinstance(e, M.MiddlewareErrorBlock) == e_failed)
    ok = (isinstance(eb, M.Entry) and eb.entry_type == "article" and eb.key == "ek" and eb.raw == "rawE" and eb.start_line == 3
          and [x.key for x in eb.fields] == ["title", "year", "author", "note"])
    conds.append(ok)
    if ok:
        t, y, a, n = [x.value for x in eb.fields]
        conds.append(is_strlike(t) and E(t, exp(0)))
        conds.append(y == 1999 and type(y) is int)
        conds.append(isinstance(a, NameParts) and E(a.first, [exp(1)]) and E(a.last, [exp(2), exp(3)]) and a.von == [] and a.jr == [])
        conds.append(is_strlike(n) and E(n, exp(4)))
        if isinstance(e, M.MiddlewareErrorBlock):
            conds.append(isinstance(e.error, Exception) and e.raw == "rawE" and e.start_line == 3)
    if not inplace:
        # input entry untouched
        conds.append(E([x.value for x in e0.fields if is_strlike(x.value)], [vals[0], vals[4]]) and E(s0.value, vals[5]))
    return conds, e_failed or s_failed


def native_replay(kind, vals, inplace, pattern):
    """replay with a concrete converter that fails on the calls listed in `pattern`"""
    import logging
    logging.disable(logging.CRITICAL)

    class Conv:
        def __init__(self):
            self.log = []

        def _do(self, s):
            n = len(self.log)
            if n < len(pattern) and pattern[n]:
                self.log.append((s, "raise"))
                raise RuntimeError("converter failed")
            self.log.append((s, "ok"))
            return "<" + s + ">"
        unicode_to_latex = _do
        latex_to_text = _do
    conv = Conv()
    try:
        mw = LatexEncodingMiddleware(encoder=conv) if kind == "enc" else LatexDecodingMiddleware(decoder=conv)
        res = drv(mw, vals, inplace)
    except Exception as ex:  # noqa
        return {"input": [kind, vals, inplace, pattern], "observed": f"raised {type(ex).__name__}: {ex}", "expected": "error block, no exception"}
    conds, _ = check(res, vals, inplace, lambda a, b: a == b)
    if all(bool(c) for c in conds):
        return None
    blocks = res[0]
    return {"input": [kind, vals, inplace, pattern],
            "observed": [(type(b).__name__, getattr(getattr(b, "ignore_error_block", b), "value", None)) for b in blocks[:1]] +
                        [(type(blocks[2]).__name__, [(f.key, repr(f.value)) for f in getattr(blocks[2], "ignore_error_block", blocks[2]).fields])],
            "expected": "only text values converted, types kept, failures contained"}


def task(kind, inplace):
    eng = Engine()
    rec = Recorder(eng)
    eng.stub_bools = [eng.sym_bool(f"fail{i}") for i in range(8)]
    vals = [eng.sym_str(f"v{i}_", 1, "xy") for i in range(7)]
    if kind == "enc":
        stub = make_stub(eng, "unicode_to_latex")
        mw = LatexEncodingMiddleware(encoder=stub)
    else:
        stub = make_stub(eng, "latex_to_text")
        mw = LatexDecodingMiddleware(decoder=stub)
    E = eng.I.models.eq_simple
    worlds = eng.run(drv, [mw, vals, inplace])
    for W in worlds:
        def rp(m):
            pat = [eng.model_value(m, b) for b in eng.stub_bools]
            return native_replay(kind, eng.model_value(m, vals), inplace, pat)
        if W.exc is not None:
            rec.require(W, True, "no-exception", rp)
            continue
        conds, failed = check(W.result, vals, inplace, E)
        rec.require(W, b_not(b_all(conds)), "scope-types-containment", rp)
        rec.witness("converter-failed" if failed else "all-converted", W)
    if worlds:
        rec.samples.append({"kind": kind, "inplace": inplace, "worlds": len(worlds)})
        rec.validated += 1
    return rec.result(worlds=len(worlds))


def task_ctor():
    """constructor option validation, concrete (interpreted)"""
    eng = Engine()
    rec = Recorder(eng)
    stub = Stub("converter", {})

    def ctor(cls, kw):
        try:
            cls(**kw)
            return "ok"
        except ValueError:
            return "ValueError"
    cases = [(LatexEncodingMiddleware, {"encoder": stub}, "ok"), (LatexEncodingMiddleware, {"encoder": stub, "keep_math": True}, "ValueError"),
             (LatexEncodingMiddleware, {"encoder": stub, "enclose_urls": False}, "ValueError"),
             (LatexDecodingMiddleware, {"decoder": stub}, "ok"), (LatexDecodingMiddleware, {"decoder": stub, "keep_braced_groups": True}, "ValueError"),
             (LatexDecodingMiddleware, {"decoder": stub, "keep_math_mode": False}, "ValueError")]
    for cls, kw, exp in cases:
        ws = eng.run(ctor, [cls, kw])
        for W in ws:
            rec.require(W, not (W.exc is None and W.result == exp), "constructor-validation",
                        lambda m: {"input": [cls.__name__, sorted(kw)], "observed": str(W.result or W.exc), "expected": exp})
    return rec.result()


def main():
    chk = Check("C18", __doc__)
    chk.bounds = {"library": "String, Preamble, Entry(str, int, NameParts(first 1 word, last 2 words), str), ExplicitComment, ParsingFailedBlock; every text one symbolic character",
                  "converter": "per call: returns '<'+input+'>' or raises, chosen by a fresh symbolic boolean (all 2^6 failure patterns)",
                  "options": "encoder / decoder middleware x allow_inplace_modification in {True, False}; custom converter vs. option conflicts in the constructors"}
    chk.assumptions = ["the pylatexenc conversion itself is a stub: what it returns is arbitrary, so the round-trip clause decode(encode(t)) == t is NOT claimed (not encodable within reach: third-party, table/regex driven)",
                       "default-constructed middlewares (which build pylatexenc objects) are not interpreted; only the custom-converter path of the constructors is"]
    chk.stubs = ["pylatexenc UnicodeToLatexEncoder.unicode_to_latex / LatexNodes2Text.latex_to_text -> nondeterministic stub"]
    chk.expected_vacuity = ["converter-failed", "all-converted"]
    for kind, inplace in itertools.product(("enc", "dec"), (True, False)):
        chk.add_task(f"{kind}-inplace{int(inplace)}", task, kind=kind, inplace=inplace)
    chk.add_task("constructors", task_ctor)
    chk.run()


if __name__ == "__main__":
    main()
