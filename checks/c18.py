"""C18 — LaTeX en/decoding touches only text values and contains errors (round trip NOT covered).

Encoded: _PyStringTransformerMiddleware.transform_entry / transform_string / _transform_all_strings,
LatexEncodingMiddleware / LatexDecodingMiddleware: constructor option validation (custom converter vs.
options), _transform_python_value_string (try/except around the converter), BlockMiddleware.transform /
transform_block (incl. interpreted deepcopy when allow_inplace_modification=False), MiddlewareErrorBlock,
PartialMiddlewareException, Library.
Stub: the third-party pylatexenc converter is replaced by a nondeterministic function: every call
either returns '<' + input + '>' or raises an Exception, chosen by a fresh symbolic boolean.
Not claimed here: decode(encode(t)) == t (it is decided entirely inside pylatexenc; DESIGN §6).
"""
import sys
import itertools

from pysym.engine import Engine
from pysym.values import *  # noqa
from pysym.interp import PyRaise
from pysym.models import Stub
from pysym.harness import Check, Recorder

from bibtexparser.middlewares.latex_encoding import LatexEncodingMiddleware, LatexDecodingMiddleware
from bibtexparser.middlewares.names import NameParts
from bibtexparser import model as M
from bibtexparser.library import Library


EMPTY_MESSAGE = [False]     # the failing converter raises an exception WITHOUT a message (tasks may switch it on)


def make_stub(eng, method):
    """deterministic converter: fails exactly on inputs starting with 'y', returns '' on inputs starting with 'z',
    otherwise returns '<' + input + '>'.
    (Being a function of its input, any caching inside the middleware must be transparent.)"""
    def conv(I, W, self, args, kwargs):
        s = args[0]
        if not is_strlike(s):
            raise PyRaise(TypeError("converter expects a string"))
        cs = chars(s)
        if len(cs) > 0 and I.truth(W, ch_eq(cs[0], "y")):
            raise PyRaise(ValueError() if EMPTY_MESSAGE[0] else RuntimeError("converter failed"))
        if len(cs) > 0 and I.truth(W, ch_eq(cs[0], "z")):
            return ""           # a successful conversion whose result is the empty string (e.g. decoding '{}')
        return mk(("<",) + cs + (">",))
    return Stub("converter", {method: conv})


# entry shapes: field key -> ("s", i) text value vals[i] | ("c", const) non-text constant | ("n", {part: [indices]}) NameParts |
# ("l", i) list holding vals[i]
SHAPES = {
    "main": [("title", ("s", 0)), ("year", ("c", 1999)), ("author", ("n", {"first": [1], "last": [2, 3]})), ("note", ("s", 4)),
             ("pages", ("c", [10, 25])), ("tags", ("l", 7))],
    # a NameParts value is the entry's only field: more converted strings than fields
    "names-only": [("author", ("n", {"first": [0], "von": [1], "last": [2], "jr": [3, 4]}))],
    # repeated field keys (hand-built entry / entry taken out of a DuplicateFieldKeyBlock)
    "dup-keys": [("note", ("s", 0)), ("title", ("s", 1)), ("note", ("s", 2)), ("year", ("c", 7)), ("title", ("s", 3))],
}


def shape_indices(shape):
    out = []
    for k, (kind, x) in SHAPES[shape]:
        if kind == "s":
            out.append(x)
        elif kind == "n":
            for part in ("first", "von", "last", "jr"):
                out.extend(x.get(part, []))
    return out


def drv(mw, vals, inplace, shape="main", reuse=False):
    # reuse: the SAME middleware instance has already transformed an equal library (built afresh from the same values)
    # before the observed call - a conversion failure must be contained on every call, not only on the first one
    rounds = 2 if reuse else 1
    out = None
    orig = None
    for _rnd in range(rounds):
        fields = []
        for k, (kind, x) in SHAPES[shape]:
            if kind == "s":
                v = vals[x]
            elif kind == "c":
                v = list(x) if isinstance(x, list) else x
            elif kind == "n":
                v = NameParts(first=[vals[i] for i in x.get("first", [])], von=[vals[i] for i in x.get("von", [])],
                              last=[vals[i] for i in x.get("last", [])], jr=[vals[i] for i in x.get("jr", [])])
            else:
                v = [vals[x], "q"]
            fields.append(M.Field(k, v))
        e = M.Entry("article", "ek", fields, 3, "rawE")
        s = M.String("sk", vals[5], 1, "rawS")
        p = M.Preamble(vals[6], 2, "rawP")
        c = M.ExplicitComment("cc", 4, "rawC")
        f = M.ParsingFailedBlock(Exception("x"), 5, "rawF")
        lib = Library([s, p, e, c, f])
        mw._allow_inplace_modification = inplace
        out = mw.transform(lib)
        orig = (s, p, e, c, f)
    return out.blocks, None, orig


def check(res, vals, inplace, E, shape="main"):
    blocks, _log, orig = res
    s0, p0, e0, c0, f0 = orig
    conds = [len(blocks) == 5]
    if len(blocks) != 5:
        return conds, False
    s, p, e, c, f = blocks
    fails = [b_and(True, ch_eq(chars(v)[0], "y")) if len(chars(v)) else False for v in vals]

    def converted(got, i):
        """got is vals[i] if the converter fails on it, else the marked copy"""
        if not is_strlike(got):
            return False
        wrapped = mk(("<",) + chars(vals[i]) + (">",))
        empties = b_and(True, ch_eq(chars(vals[i])[0], "z")) if len(chars(vals[i])) else False
        return b_any([b_and(fails[i], E(got, vals[i])), b_all([b_not(fails[i]), b_not(empties), E(got, wrapped)]), b_and(empties, E(got, ""))])
    # untouched blocks
    conds.append(isinstance(p, M.Preamble) and E(p.value, vals[6]) and p.raw == "rawP" and p.start_line == 2)
    conds.append(isinstance(c, M.ExplicitComment) and c.comment == "cc" and c.raw == "rawC" and c.start_line == 4)
    conds.append(isinstance(f, M.ParsingFailedBlock) and f.raw == "rawF" and f.start_line == 5)
    if inplace:
        conds.append(p is p0 and c is c0)
    else:
        conds.append(p is not p0 and c is not c0 and E(p0.value, vals[6]))
    # string block
    sb = s.ignore_error_block if isinstance(s, M.MiddlewareErrorBlock) else s
    conds.append(isinstance(sb, M.String) and sb.key == "sk" and sb.raw == "rawS" and sb.start_line == 1)
    if isinstance(sb, M.String):
        conds.append(converted(sb.value, 5))
    s_err = isinstance(s, M.MiddlewareErrorBlock)
    conds.append(fails[5] if s_err else b_not(fails[5]))
    # entry
    spec = SHAPES[shape]
    e_failed = b_any(fails[i] for i in shape_indices(shape))
    eb = e.ignore_error_block if isinstance(e, M.MiddlewareErrorBlock) else e
    e_err = isinstance(e, M.MiddlewareErrorBlock)
    conds.append(e_failed if e_err else b_not(e_failed))
    ok = (isinstance(eb, M.Entry) and eb.entry_type == "article" and eb.key == "ek" and eb.raw == "rawE" and eb.start_line == 3
          and [x.key for x in eb.fields] == [k for k, _ in spec])
    conds.append(ok)
    if ok:
        for fld, (k, (kind, x)) in zip(eb.fields, spec):
            v = fld.value
            if kind == "s":
                conds.append(converted(v, x))
            elif kind == "c":
                # non-text values (ints, lists) are neither str nor NameParts: left alone, type kept
                conds.append(type(v) is type(x) and v == x)
            elif kind == "n":
                good = isinstance(v, NameParts)
                parts_ok = []
                if good:
                    for part in ("first", "von", "last", "jr"):
                        got = getattr(v, part)
                        idx = x.get(part, [])
                        if not (isinstance(got, list) and len(got) == len(idx)):
                            good = False
                        else:
                            parts_ok.extend(converted(g, i) for g, i in zip(got, idx))
                conds.append(b_all(parts_ok) if good else False)
            else:
                conds.append(isinstance(v, list) and len(v) == 2 and E(v, [vals[x], "q"]))
        if e_err:
            conds.append(isinstance(e.error, Exception) and e.raw == "rawE" and e.start_line == 3)
    if not inplace:
        conds.append(E([x.value for x in e0.fields if is_strlike(x.value)], [vals[x] for k, (kind, x) in spec if kind == "s"])
                     and E(s0.value, vals[5]))
        # ... and the name parts / lists held by the input entry are not the ones that were converted
        for fld0, (k, (kind, x)) in zip(e0.fields, spec):
            if kind == "n":
                v0 = fld0.value
                conds.append(isinstance(v0, NameParts) and b_all([E(getattr(v0, part), [vals[i] for i in x.get(part, [])]) for part in ("first", "von", "last", "jr")]))
                if ok:
                    conds.append(all(f2.value is not v0 for f2 in eb.fields))
    return conds, (e_err or s_err)


def native_replay(kind, vals, inplace, shape="main", reuse=False):
    """replay with a concrete converter implementing the same function of its input"""
    import logging
    logging.disable(logging.CRITICAL)

    class Conv:
        def _do(self, s):
            if not isinstance(s, str):
                raise TypeError("converter expects a string")
            if s.startswith("y"):
                raise (ValueError() if EMPTY_MESSAGE[0] else RuntimeError("converter failed"))
            if s.startswith("z"):
                return ""
            return "<" + s + ">"
        unicode_to_latex = _do
        latex_to_text = _do
    try:
        mw = LatexEncodingMiddleware(encoder=Conv()) if kind == "enc" else LatexDecodingMiddleware(decoder=Conv())
        res = drv(mw, vals, inplace, shape, reuse)
    except Exception as ex:  # noqa
        from pysym.harness import guard_repo_exception
        guard_repo_exception(ex)
        return {"input": [kind, vals, inplace, shape, {"same instance used on an equal library before": reuse}], "observed": f"raised {type(ex).__name__}: {ex}", "expected": "error block, no exception"}
    conds, _ = check(res, vals, inplace, lambda a, b: a == b, shape)
    if all((c is True) or (not isinstance(c, bool) and False) or bool(c) for c in conds):
        return None
    blocks = res[0]
    return {"input": [kind, vals, inplace, shape, {"same instance used on an equal library before": reuse}],
            "observed": [(type(b).__name__, repr(getattr(getattr(b, "ignore_error_block", b), "value", None))) for b in blocks[:1]] +
                        [(type(blocks[2]).__name__, [(f.key, repr(f.value)) for f in getattr(blocks[2], "ignore_error_block", blocks[2]).fields])],
            "expected": "only text values converted (converter fails on values starting with 'y'), types kept, failures contained"}


def task(kind, inplace, shape="main", empty_message=False, reuse=False):
    EMPTY_MESSAGE[0] = empty_message
    eng = Engine()
    rec = Recorder(eng)
    # vals[0] (a field value in every shape) and vals[5] (the @string value) may also start with 'z': converted to ''
    vals = [eng.sym_str(f"v{i}_", 1, "xyz" if i in (0, 5) else "xy") for i in range(8)]
    if shape == "main":
        # one text value of two characters (a failing value may hold '%'), one name-part string holding a blank
        vals[4] = mk(chars(eng.sym_str("v4_", 1, "xy")) + chars(eng.sym_str("v4b_", 1, "x%")))
        vals[2] = mk(chars(eng.sym_str("v2_", 1, "xy")) + (" ",) + chars(eng.sym_str("v2b_", 1, "xy")))
    if kind == "enc":
        stub = make_stub(eng, "unicode_to_latex")
        mw = LatexEncodingMiddleware(encoder=stub)
    else:
        stub = make_stub(eng, "latex_to_text")
        mw = LatexDecodingMiddleware(decoder=stub)
    E = eng.I.models.eq_simple
    worlds = eng.run(drv, [mw, vals, inplace, shape, reuse])
    for W in worlds:
        def rp(m):
            return native_replay(kind, eng.model_value(m, vals), inplace, shape, reuse)
        if W.exc is not None:
            rec.require(W, True, "no-exception", rp)
            continue
        conds, failed = check(W.result, vals, inplace, E, shape)
        rec.require(W, b_not(b_all(conds)), "scope-types-containment", rp)
        rec.witness("converter-failed" if failed else "all-converted", W)
        if reuse and failed:
            rec.witness("converter-failed-on-second-use", W)
    if worlds:
        rec.samples.append({"kind": kind, "inplace": inplace, "worlds": len(worlds)})
        rec.validated += 1
    return rec.result(worlds=len(worlds))


def task_ctor():
    """constructor option validation, concrete (interpreted)"""
    eng = Engine()
    rec = Recorder(eng)
    stub = Stub("converter", {})

    def ctor(cls, kw):
        try:
            cls(**kw)
            return "ok"
        except ValueError:
            return "ValueError"
    cases = [(LatexEncodingMiddleware, {"encoder": stub}, "ok"), (LatexEncodingMiddleware, {"encoder": stub, "keep_math": True}, "ValueError"),
             (LatexEncodingMiddleware, {"encoder": stub, "enclose_urls": False}, "ValueError"),
             (LatexDecodingMiddleware, {"decoder": stub}, "ok"), (LatexDecodingMiddleware, {"decoder": stub, "keep_braced_groups": True}, "ValueError"),
             (LatexDecodingMiddleware, {"decoder": stub, "keep_math_mode": False}, "ValueError")]
    for cls, kw, exp in cases:
        ws = eng.run(ctor, [cls, kw])
        for W in ws:
            rec.require(W, not (W.exc is None and W.result == exp), "constructor-validation",
                        lambda m: {"input": [cls.__name__, sorted(kw)], "observed": str(W.result or W.exc), "expected": exp})
    return rec.result()


# ------------------------------------------------------------------ what the constructors hand to the third-party library
class RecRule:
    def __init__(self, rule_type=None, rule=None):
        self.rule_type = rule_type
        self.rule = rule


class RecEncoder:
    def __init__(self, conversion_rules=None):
        self.conversion_rules = conversion_rules


class RecSpec:
    def __init__(self, name, simplify_repl=None):
        self.name = name
        self.simplify_repl = simplify_repl


class RecDB:
    def __init__(self):
        self.cats = []

    def add_context_category(self, name, prepend=False, macros=None):
        self.cats.append((name, prepend, [(m.name, m.simplify_repl) for m in macros]))


class RecDecoder:
    def __init__(self, latex_context=None, keep_braced_groups=None, math_mode=None):
        self.latex_context = latex_context
        self.keep_braced_groups = keep_braced_groups
        self.math_mode = math_mode


class RecL2T:
    @staticmethod
    def get_default_latex_context_db():
        return RecDB()


class RecPkg:
    latex2text = RecL2T


OPT = [None, True, False]


def describe_enc(mw):
    out = []
    for r in mw._encoder.conversion_rules:
        if isinstance(r, str):
            out.append(r)
        else:
            out.append((r.rule_type, [(p.pattern, repl) for p, repl in r.rule]))
    return out


def drv_ctor_seq(i1, j1, i2, j2):
    """two default-built encoders and decoders in a row: what the second hands to the converter library must depend on
    its own options only"""
    a = LatexEncodingMiddleware(keep_math=OPT[i1], enclose_urls=OPT[j1])
    b = LatexEncodingMiddleware(keep_math=OPT[i2], enclose_urls=OPT[j2])
    da = LatexDecodingMiddleware(keep_braced_groups=OPT[i1], keep_math_mode=OPT[j1])
    db = LatexDecodingMiddleware(keep_braced_groups=OPT[i2], keep_math_mode=OPT[j2])
    dec = [(d._decoder.keep_braced_groups, d._decoder.math_mode, d._decoder.latex_context.cats) for d in (da, db)]
    return describe_enc(a), describe_enc(b), dec, a._encoder is not b._encoder and da._decoder is not db._decoder


def expect_enc(i, j, ref):
    math, url = ref
    out = []
    if OPT[i] is not False:
        out.append(math)
    if OPT[j] is not False:
        out.append(url)
    out.append("defaults")
    return out


def expect_dec(i, j):
    return (OPT[i] is True, "text" if OPT[j] is False else "verbatim", [("bibtexparse-default-context", True, [("url", "%s")])])


def patched_ctor_env():
    from bibtexparser.middlewares import latex_encoding as LE
    saved = {k: getattr(LE, k) for k in ("UnicodeToLatexEncoder", "UnicodeToLatexConversionRule", "LatexNodes2Text", "MacroTextSpec", "pylatexenc")}
    LE.UnicodeToLatexEncoder, LE.UnicodeToLatexConversionRule = RecEncoder, RecRule
    LE.LatexNodes2Text, LE.MacroTextSpec, LE.pylatexenc = RecDecoder, RecSpec, RecPkg
    return LE, saved


def native_ctor_seq(i1, j1, i2, j2):
    LE, saved = patched_ctor_env()
    try:
        ref = describe_enc(LatexEncodingMiddleware())
        ea, eb, dec, fresh = drv_ctor_seq(i1, j1, i2, j2)
    except Exception as ex:  # noqa
        from pysym.harness import guard_repo_exception
        guard_repo_exception(ex)
        return {"input": [OPT[i1], OPT[j1], OPT[i2], OPT[j2]], "observed": f"raised {type(ex).__name__}: {ex}", "expected": "two middlewares"}
    finally:
        for k, v in saved.items():
            setattr(LE, k, v)
    ok = (len(ref) == 3 and ea == expect_enc(i1, j1, ref[:2]) and eb == expect_enc(i2, j2, ref[:2]) and fresh
          and dec[0] == expect_dec(i1, j1) and dec[1] == expect_dec(i2, j2))
    if ok:
        return None
    return {"input": [OPT[i1], OPT[j1], OPT[i2], OPT[j2]], "observed": {"first": ea, "second": eb, "decoders": dec},
            "expected": "math rule iff keep_math is not False, URL rule iff enclose_urls is not False, then 'defaults'; decoder options passed through; no state shared between instances"}


def task_ctor_seq():
    eng = Engine()
    eng.own_class(RecRule, RecEncoder, RecSpec, RecDB, RecDecoder, RecL2T, RecPkg)
    # rule objects built at import time (before the stand-ins are installed) are real pylatexenc objects: plain attribute holders
    from pylatexenc.latexencode import UnicodeToLatexConversionRule as _RealRule
    eng.own_class(_RealRule)
    rec = Recorder(eng)
    LE, saved = patched_ctor_env()
    try:
        ws = eng.run(lambda: describe_enc(LatexEncodingMiddleware()), [])
        ref = ws[0].result if len(ws) == 1 and ws[0].exc is None else None
        idx = [eng.sym_int(n, 0, 2) for n in ("i1", "j1", "i2", "j2")]
        worlds = eng.run(drv_ctor_seq, idx)
    finally:
        for k, v in saved.items():
            setattr(LE, k, v)
    if ref is None or len(ref) != 3:
        rec.require(ws[0] if ws else None, True, "default-encoder-rules", lambda m: native_ctor_seq(0, 0, 0, 0) or {"input": "LatexEncodingMiddleware()", "observed": str(ref), "expected": "math rule, URL rule, 'defaults'"})
        return rec.result()
    for W in worlds:
        def rp(m):
            return native_ctor_seq(*[eng.model_value(m, x) for x in idx])
        if W.exc is not None:
            rec.require(W, True, "constructor-no-exception", rp)
            continue
        ea, eb, dec, fresh = W.result
        bad = False
        for vals in itertools.product(range(3), repeat=4):
            here = b_all([i_cmp("==", x, v) for x, v in zip(idx, vals)])
            sat, _ = eng.query(W, here)
            if not sat:
                continue
            i1, j1, i2, j2 = vals
            good = (ea == expect_enc(i1, j1, ref[:2]) and eb == expect_enc(i2, j2, ref[:2]) and fresh is True
                    and dec[0] == expect_dec(i1, j1) and dec[1] == expect_dec(i2, j2))
            if not good:
                bad = b_or(bad, here)
        rec.require(W, bad, "constructor-options-honoured-independently", rp)
        rec.witness("two-constructions", W)
    return rec.result(worlds=len(worlds))


def main():
    chk = Check("C18", __doc__)
    chk.bounds = {"library": "String, Preamble, Entry, ExplicitComment, ParsingFailedBlock; every text one symbolic character (in the main shape one text has a second character over x / % and one name-part string is two words joined by a blank); three entry shapes: main = (str, int, NameParts(first 1 word, last 2 words), str, list of ints, list of str); names-only = a single NameParts field with 5 strings over all four parts; dup-keys = note/title/note/year(int)/title with repeated field keys",
                  "converter failure": "RuntimeError with a message, and (three extra tasks) ValueError() without any message", "converter": "a function of its input: raises on values starting with 'y', returns the empty string on values starting with 'z', else returns '<'+input+'>' (values are symbolic over {x,y} - one field value and the @string value over {x,y,z} - so all 2^6 failure patterns, all equal-value patterns and conversions to '' occur)",
                  "constructor sequences": "two default-built encoder and decoder middlewares in a row, keep_math / enclose_urls / keep_braced_groups / keep_math_mode each symbolic over {None, True, False}; the pylatexenc classes are recording stubs, the claim is about what bibtexparser hands to them (which rules, which options, no shared state)",
                  "instance reuse": "four extra tasks (encoder/decoder x main/names-only, copy mode): the same middleware instance has transformed an equal, separately built library before the observed call",
                  "options": "encoder / decoder middleware x allow_inplace_modification in {True, False}; custom converter vs. option conflicts in the constructors"}
    chk.assumptions = ["the pylatexenc conversion itself is a stub: what it returns is arbitrary, so the round-trip clause decode(encode(t)) == t is NOT claimed (not encodable within reach: third-party, table/regex driven)",
                       "default-constructed middlewares (which build pylatexenc objects) are not interpreted; only the custom-converter path of the constructors is"]
    chk.stubs = ["pylatexenc UnicodeToLatexEncoder.unicode_to_latex / LatexNodes2Text.latex_to_text -> nondeterministic stub",
                 "constructor task: UnicodeToLatexEncoder / UnicodeToLatexConversionRule / LatexNodes2Text / MacroTextSpec / get_default_latex_context_db -> recording classes"]
    chk.expected_vacuity = ["converter-failed", "all-converted", "two-constructions", "converter-failed-on-second-use"]
    chk.add_task("ctor-sequence", task_ctor_seq)
    # a converter that fails with an exception carrying no message (a failure is a failure, whatever str(e) is)
    for kind, shape in (("enc", "main"), ("dec", "main"), ("enc", "names-only")):
        chk.add_task(f"{kind}-inplace1-{shape}-emptymsg", task, kind=kind, inplace=True, shape=shape, empty_message=True)
    for kind, inplace, shape in itertools.product(("enc", "dec"), (True, False), sorted(SHAPES)):
        chk.add_task(f"{kind}-inplace{int(inplace)}-{shape}", task, kind=kind, inplace=inplace, shape=shape)
    # one middleware instance used twice on equal libraries: the second call must convert and contain failures like the first
    for kind, shape in itertools.product(("enc", "dec"), ("main", "names-only")):
        chk.add_task(f"{kind}-inplace0-{shape}-reused-instance", task, kind=kind, inplace=False, shape=shape, reuse=True)
    chk.add_task("constructors", task_ctor)
    chk.run()


if __name__ == "__main__":
    main()
