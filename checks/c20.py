"""C20 — entry points apply exactly the requested middleware stack, in order.

Encoded: all of entrypoint.py (parse_string, parse_file, write_string, write_file, _build_parse_stack,
_build_unparse_stack), parsestack.py, BlockMiddleware.transform/transform_block, LibraryMiddleware,
Splitter, writer, default middlewares.
Symbolic: the document (a symbolic key character and a symbolic tail after a fixed entry); the file
content; probe middlewares are order-sensitive (each appends its tag to every field value), stacks,
argument kinds (list / tuple / one-shot iterator / None), encodings and targets are enumerated.
Stub: builtin open() -> records (path, mode, encoding) and serves / collects text (real codecs are
outside the claim).
"""
import sys
import itertools

from pysym.engine import Engine
from pysym.values import *  # noqa
from pysym.models import Stub
from pysym.harness import Check, Recorder
from checks.splitcommon import SIGMA_S

import bibtexparser
from bibtexparser import entrypoint as EP
from bibtexparser.splitter import Splitter
from bibtexparser import writer as WR
from bibtexparser.middlewares.middleware import BlockMiddleware, LibraryMiddleware
from bibtexparser.middlewares.parsestack import default_parse_stack, default_unparse_stack
from bibtexparser import model as M
from bibtexparser.library import Library


class TagFields(BlockMiddleware):
    """order-sensitive probe: appends its tag to every field value (on a copy)"""

    def __init__(self, tag):
        super().__init__(allow_inplace_modification=False, allow_parallel_execution=True)
        self.tag = tag

    def transform_entry(self, entry, library):
        for f in entry.fields:
            f.value = f.value + self.tag
        return entry


class TagLib(LibraryMiddleware):
    def __init__(self, tag):
        super().__init__(allow_inplace_modification=False)
        self.tag = tag

    def transform(self, library):
        library = super().transform(library)
        for e in library.entries:
            for f in e.fields:
                f.value = f.value + self.tag
        return library


class DropAll(LibraryMiddleware):
    """library probe whose result is a new, empty library (a filter that keeps nothing): an empty library is a result
    like any other - what follows in the stack works on it, and it is what the entry point returns / writes"""

    def __init__(self, tag):
        super().__init__(allow_inplace_modification=False)
        self.tag = tag

    def transform(self, library):
        return Library()


class AddBlock(LibraryMiddleware):
    """library probe that generates content: appends a comment carrying its tag (visible even on an empty library)"""

    def __init__(self, tag):
        super().__init__(allow_inplace_modification=False)
        self.tag = tag

    def transform(self, library):
        library = super().transform(library)
        library.add(M.ExplicitComment(self.tag + str(len(library.blocks))))
        return library


class RenameStrings(BlockMiddleware):
    """in-place probe that changes the KEY of every @string (upper-case): the library handed on must index the new keys"""

    def __init__(self):
        super().__init__(allow_inplace_modification=True, allow_parallel_execution=True)

    def transform_string(self, string, library):
        string.key = string.key.upper()
        return string


class Splice(BlockMiddleware):
    """probe returning a configurable kind of result for entries"""

    def __init__(self, kind):
        super().__init__(allow_inplace_modification=True, allow_parallel_execution=True)
        self.kind = kind

    def transform_entry(self, entry, library):
        k = self.kind
        a = M.ExplicitComment("A", 0, "A")
        b = M.ExplicitComment("B", 0, "B")
        if k == "none":
            return None
        if k == "empty":
            return []
        if k == "block":
            return a
        if k == "list2":
            return [a, b]
        if k == "tuple2":
            return (a, b)
        if k == "dup2":
            return [a, a]
        if k == "dup3":
            return (b, a, b)
        if k == "gen":
            return (x for x in [a, b])
        if k == "int":
            return 5
        if k == "zero":
            return 0
        if k == "false":
            return False
        if k == "emptystr":
            return ""
        if k == "str":
            return "ab"
        if k == "mixed":
            return [a, 7]
        return entry


class SpliceAll(BlockMiddleware):
    """probe overriding transform_block itself: acts on the blocks of ONE type (any type, failed blocks included)"""

    def __init__(self, target, kind):
        super().__init__(allow_inplace_modification=True, allow_parallel_execution=True)
        self.target = target
        self.kind = kind

    def transform_block(self, block, library):
        if type_code(block) != self.target:
            return block
        k = self.kind
        a = M.ExplicitComment("A", 0, "A")
        b = M.ExplicitComment("B", 0, "B")
        if k == "n":
            return None
        if k == "e":
            return []
        if k == "b":
            return a
        if k == "l":
            return [a, b]
        if k == "t":
            return (b, a)
        if k == "d":
            return [a, a]
        if k == "i":
            return 5
        if k == "m":
            return [a, 7]
        return block


ALL_KINDS = {"n": [], "e": [], "b": ["A"], "l": ["A", "B"], "t": ["B", "A"], "d": ["A", "A"], "i": TypeError, "m": TypeError, "s": None}
ALL_TARGETS = "SPXIEF"
ALL_DOC = '@string{s = "x"}\n@preamble{"p"}\n@comment{c}\nfree\n@a{k, t = {v}}\n@a{k, t = {w}}\n'


def type_code(b):
    if isinstance(b, M.ParsingFailedBlock):
        return "F"
    if isinstance(b, M.String):
        return "S"
    if isinstance(b, M.Preamble):
        return "P"
    if isinstance(b, M.ExplicitComment):
        return "X"
    if isinstance(b, M.ImplicitComment):
        return "I"
    if isinstance(b, M.Entry):
        return "E"
    return "?"


def drv_spliceall(text, target, kind):
    lib = Splitter(text).split()
    shape = [type_code(b) for b in lib.blocks]
    try:
        out = SpliceAll(target, kind).transform(lib)
        got = [b.raw if isinstance(b, M.ExplicitComment) and b.raw in ("A", "B") else type_code(b) for b in out.blocks]
    except TypeError:
        got = "TypeError"
    return got, shape


def expect_all(shape, target, kind):
    res = ALL_KINDS[kind]
    if res is TypeError:
        return "TypeError" if target in shape else list(shape)
    out = []
    for x in shape:
        out.extend(res if (x == target and res is not None) else [x])
    return out


SPLICE = {"none": [], "empty": [], "emptystr": [], "block": ["A"], "list2": ["A", "B"], "tuple2": ["A", "B"], "dup2": ["A", "A"], "dup3": ["B", "A", "B"], "gen": TypeError, "int": TypeError,
          "zero": TypeError, "false": TypeError,
          "str": TypeError, "mixed": TypeError, "same": ["E"]}


def desc(lib):
    out = []
    for b in lib.blocks:
        if isinstance(b, M.Entry):
            out.append(("Entry", b.entry_type, b.key, [(f.key, f.value) for f in b.fields]))
        elif isinstance(b, M.String):
            out.append(("String", b.key, b.value))
        elif isinstance(b, (M.ExplicitComment, M.ImplicitComment)):
            out.append((type(b).__name__, b.comment))
        else:
            out.append((type(b).__name__, b.raw))
    return out


def wrap(stack, how):
    if stack is None:
        return None
    if how == "tuple":
        return tuple(stack)
    if how == "iter":
        return iter(stack)
    return list(stack)


def mk_one(t):
    if t[0] == "b":
        return TagFields(t)
    if t[0] == "c":
        return AddBlock(t)
    if t[0] == "l":
        return TagLib(t)
    if t[0] == "d":
        return DropAll(t)
    # shipped middlewares (R / E also sit in the default parse stack, A in the default write stack)
    from bibtexparser import middlewares as SM
    if t == "R":
        return SM.ResolveStringReferencesMiddleware(True)
    if t == "E":
        return SM.RemoveEnclosingMiddleware(True)
    if t == "A":
        return SM.AddEnclosingMiddleware(reuse_previous_enclosing=False, enclose_integers=True, default_enclosing="{", allow_inplace_modification=False)
    if t == "N":
        return SM.NormalizeFieldKeys(True)
    raise ValueError(t)


def mk_stack(spec):
    if spec is None:
        return None
    return [mk_one(t) for t in spec]


def drv_parse(text, stack_spec, append_spec, how):
    try:
        got = desc(EP.parse_string(text, parse_stack=wrap(mk_stack(stack_spec), how), append_middleware=wrap(mk_stack(append_spec), how)))
    except ValueError:
        got = "ValueError"
    if stack_spec is not None and append_spec is not None:
        exp = "ValueError"
    else:
        lib = Splitter(text).split()
        st = mk_stack(stack_spec) if stack_spec is not None else default_parse_stack(allow_inplace_modification=True)
        for m in st + (mk_stack(append_spec) or []):
            lib = m.transform(lib)
        exp = desc(lib)
    return got, exp


def drv_write(text, stack_spec, prepend_spec, how):
    lib = EP.parse_string(text)
    try:
        got = EP.write_string(lib, unparse_stack=wrap(mk_stack(stack_spec), how), prepend_middleware=wrap(mk_stack(prepend_spec), how))
    except ValueError:
        got = "ValueError"
    if stack_spec is not None and prepend_spec is not None:
        exp = "ValueError"
    else:
        l2 = lib
        st = mk_stack(stack_spec) if stack_spec is not None else default_unparse_stack(allow_inplace_modification=False)
        for m in (mk_stack(prepend_spec) or []) + st:
            l2 = m.transform(l2)
        exp = WR.write(l2, None)
    return got, exp


def compose_write(lib, prepend_spec):
    l2 = lib
    for m in (mk_stack(prepend_spec) or []) + default_unparse_stack(allow_inplace_modification=False):
        l2 = m.transform(l2)
    return WR.write(l2, None)


def compose_parse(text, append_spec):
    lib = Splitter(text).split()
    for m in default_parse_stack(allow_inplace_modification=True) + (mk_stack(append_spec) or []):
        lib = m.transform(lib)
    return desc(lib)


def drv_rename(text):
    lib = EP.parse_string('@string{ab = "x"}\n@string{Ab = "y"}\n' + text, parse_stack=[RenameStrings()])
    blocks = lib.blocks
    live = [b for b in blocks if isinstance(b, M.String)]
    return ([(type(b).__name__, getattr(b, "key", None)) for b in blocks[:2]], sorted(k for k in lib.strings_dict),
            all(lib.strings_dict.get(b.key) is b for b in live), len(live))


def drv_repeat(text):
    """successive calls must not influence each other (no state kept between calls)"""
    lib = EP.parse_string(text)
    got = [EP.write_string(lib, prepend_middleware=mk_stack(["b1"])), EP.write_string(lib),
           EP.write_string(lib, prepend_middleware=mk_stack(["l2"])), EP.write_string(lib),
           desc(EP.parse_string(text, append_middleware=mk_stack(["b3"]))), desc(EP.parse_string(text)),
           desc(EP.parse_string(text, append_middleware=mk_stack(["l4"])))]
    exp = [compose_write(lib, ["b1"]), compose_write(lib, None), compose_write(lib, ["l2"]), compose_write(lib, None),
           compose_parse(text, ["b3"]), compose_parse(text, None), compose_parse(text, ["l4"])]
    return got, exp


def drv_splice(text, kind):
    lib = Splitter(text).split()
    n_entries = len(lib.entries)
    try:
        out = Splice(kind).transform(lib)
        got = [b.comment if isinstance(b, M.ExplicitComment) and b.raw in ("A", "B") else ("E" if isinstance(b, M.Entry) else "o") for b in out.blocks]
    except TypeError:
        got = "TypeError"
    shape = [("E" if isinstance(b, M.Entry) else "o") for b in lib.blocks]
    return got, shape, n_entries


STACK_VARIANTS = (None, "append-iter", "stack-iter", "stack-empty", "prepend-iter", "unparse-iter", "unparse-empty", "format")


def custom_format():
    f = WR.BibtexFormat()
    f.indent = "  "
    f.trailing_comma = True
    f.value_column = 9
    f.block_separator = "\n\n\n"
    return f


def file_kwargs(sv):
    """(parse_file kwargs, parse_string kwargs, write_file kwargs, write_string kwargs): the file wrappers get one-shot
    iterators / empty stacks, the string entry points the same stacks as fresh lists"""
    pf, ps, wf, ws = {}, {}, {}, {}
    if sv == "append-iter":
        pf, ps = {"append_middleware": iter(mk_stack(["b8", "l9"]))}, {"append_middleware": mk_stack(["b8", "l9"])}
    elif sv == "stack-iter":
        pf, ps = {"parse_stack": iter(mk_stack(["b1", "l2"]))}, {"parse_stack": mk_stack(["b1", "l2"])}
    elif sv == "stack-empty":
        pf, ps = {"parse_stack": []}, {"parse_stack": []}
    elif sv == "prepend-iter":
        wf, ws = {"append_middleware": iter(mk_stack(["b8", "l9"]))}, {"prepend_middleware": mk_stack(["b8", "l9"])}
    elif sv == "unparse-iter":
        wf, ws = {"parse_stack": iter(mk_stack(["b1", "l2"]))}, {"unparse_stack": mk_stack(["b1", "l2"])}
    elif sv == "unparse-empty":
        wf, ws = {"parse_stack": ()}, {"unparse_stack": []}
    elif sv == "format":
        wf, ws = {"bibtex_format": custom_format()}, {"bibtex_format": custom_format()}
    return pf, ps, wf, ws


def drv_files(content, enc, target_kind, ctx, sv=None):
    pf, ps, wf, ws = file_kwargs(sv)
    lib_f = EP.parse_file("some/path.bib", encoding=enc, **pf)
    lib_s = EP.parse_string(content, **ps)
    text = EP.write_string(lib_s, **ws)
    if target_kind == "path":
        EP.write_file("out/path.bib", lib_s, **wf)
    else:
        EP.write_file(ctx["fileobj"], lib_s, **wf)
    return desc(lib_f), desc(lib_s), text


def install_open(eng, content, log):
    def handler(I, W, a, k):
        path = a[0]
        mode = a[1] if len(a) > 1 else k.get("mode", "r")
        log.append(("open", path, mode, k.get("encoding")))
        W.mut += 1
        return make_file(log, content)
    eng.open_handler = handler


def make_file(log, content):
    def f_read(I, W, self, a, k):
        log.append(("read",)); W.mut += 1
        return content

    def f_write(I, W, self, a, k):
        log.append(("write", a[0])); W.mut += 1
        return len(chars(a[0]))

    def f_enter(I, W, self, a, k):
        return self

    def f_exit(I, W, self, a, k):
        log.append(("close",)); W.mut += 1
        return None
    return Stub("file", {"read": f_read, "write": f_write, "__enter__": f_enter, "__exit__": f_exit})


TAIL = [2]     # number of symbolic characters after the fixed entry (3 at the thorough tier)


def sym_doc(eng, extra=""):
    k = eng.sym_str("k", 1, "ab")
    tail = eng.sym_str("t", TAIL[0], SIGMA_S + extra)
    if extra:
        # file content: one more symbolic character INSIDE a value (line ends / form feeds there belong to the value)
        inner = eng.sym_str("i", 1, "x \n" + extra)
        return mk(tuple("@a{") + chars(k) + tuple(", t = {v") + chars(inner) + tuple("z}, u = w}\n") + chars(tail)), (k, tail)
    return mk(tuple("@a{") + chars(k) + tuple(", t = {v}, u = w}\n") + chars(tail)), (k, tail)


def task_stack(which, stack_spec, extra_spec, how, doc="entry"):
    eng = Engine()
    eng.own_class(TagFields, TagLib, Splice, AddBlock, SpliceAll, RenameStrings, DropAll)
    rec = Recorder(eng)
    if doc == "entry":
        text, syms = sym_doc(eng)
    else:
        text = eng.sym_str("t", 2, " \n" + SIGMA_S)     # may be empty of blocks / whitespace only
    E = eng.I.models.eq_simple
    drv = drv_parse if which == "parse" else drv_write
    worlds = eng.run(drv, [text, stack_spec, extra_spec, how])

    def rp(m):
        import logging
        logging.disable(logging.CRITICAL)
        t = eng.model_str(m, text)
        try:
            got, exp = drv(t, stack_spec, extra_spec, how)
        except Exception as ex:  # noqa
            from pysym.harness import guard_repo_exception
            guard_repo_exception(ex)
            return {"input": [t, stack_spec, extra_spec, how], "observed": f"raised {type(ex).__name__}: {ex}", "expected": "composition"}
        if got == exp:
            return None
        return {"input": [which, t, stack_spec, extra_spec, how], "observed": got, "expected": exp,
                "known_key": None}
    for W in worlds:
        if W.exc is not None:
            rec.require(W, True, "no-other-exception", rp)
            continue
        got, exp = W.result
        good = E(got, exp) if not (isinstance(got, str) and isinstance(exp, str) and got != exp) else False
        rec.require(W, b_not(good), f"{which}-equals-composition", rp)
        if exp == "ValueError":
            rec.witness("both-given-rejected", W)
        elif (stack_spec or extra_spec):
            rec.witness("probes-applied", W)
    if worlds and worlds[0].exc is None and not rec.samples:
        ok, m = eng.query(worlds[0], True)
        if ok:
            rec.samples.append({"which": which, "document": eng.model_str(m, text), "stack": stack_spec, "extra": extra_spec, "as": how,
                                "result": str(eng.model_value(m, worlds[0].result[0]))[:200]})
            rec.validated += 1
    return rec.result(worlds=len(worlds))


def task_repeat():
    eng = Engine()
    eng.own_class(TagFields, TagLib, Splice, AddBlock, SpliceAll, RenameStrings, DropAll)
    rec = Recorder(eng)
    text, syms = sym_doc(eng)
    E = eng.I.models.eq_simple
    worlds = eng.run(drv_repeat, [text])

    def rp(m):
        import logging
        logging.disable(logging.CRITICAL)
        t = eng.model_str(m, text)
        try:
            got, exp = drv_repeat(t)
        except Exception as ex:  # noqa
            from pysym.harness import guard_repo_exception
            guard_repo_exception(ex)
            return {"input": t, "observed": f"raised {type(ex).__name__}: {ex}", "expected": "independent calls"}
        if got == exp:
            return None
        bad = [i for i, (g, e) in enumerate(zip(got, exp)) if g != e]
        return {"input": t, "observed": {"differing calls": bad, "got": [got[i] for i in bad]}, "expected": [exp[i] for i in bad]}
    for W in worlds:
        if W.exc is not None:
            rec.require(W, True, "no-other-exception", rp)
            continue
        got, exp = W.result
        rec.require(W, b_not(E(got, exp)), "calls-are-independent", rp)
        rec.witness("repeated-calls", W)
    return rec.result(worlds=len(worlds))


def task_splice(kind):
    eng = Engine()
    eng.own_class(TagFields, TagLib, Splice, AddBlock, SpliceAll, RenameStrings, DropAll)
    rec = Recorder(eng)
    text, syms = sym_doc(eng)
    worlds = eng.run(drv_splice, [text, kind])

    def expect(shape):
        if SPLICE[kind] is TypeError:
            return "TypeError" if "E" in shape else [x for x in shape]
        out = []
        for x in shape:
            out.extend(SPLICE[kind] if x == "E" else [x])
        return out

    def rp(m):
        import logging
        logging.disable(logging.CRITICAL)
        t = eng.model_str(m, text)
        try:
            got, shape, n = drv_splice(t, kind)
        except Exception as ex:  # noqa
            from pysym.harness import guard_repo_exception
            guard_repo_exception(ex)
            return {"input": [t, kind], "observed": f"raised {type(ex).__name__}: {ex}", "expected": "splice or TypeError"}
        if got == expect(shape):
            return None
        return {"input": [t, kind], "observed": got, "expected": expect(shape)}
    for W in worlds:
        if W.exc is not None:
            rec.require(W, True, "no-other-exception", rp)
            continue
        got, shape, n = W.result
        rec.require(W, got != expect(shape), "splice-semantics", rp)
        if n > 0:
            rec.witness("entry-spliced", W)
    return rec.result(worlds=len(worlds))


def task_spliceall():
    """transform_block-level probe for every block type, failed blocks included; target type and result kind symbolic"""
    eng = Engine()
    eng.own_class(TagFields, TagLib, Splice, AddBlock, SpliceAll, RenameStrings, DropAll)
    rec = Recorder(eng)
    tail = eng.sym_str("t", 2, SIGMA_S)
    text = mk(tuple(ALL_DOC) + chars(tail))
    target = eng.sym_str("T", 1, ALL_TARGETS)
    kind = eng.sym_str("K", 1, "".join(ALL_KINDS))
    worlds = eng.run(drv_spliceall, [text, target, kind])

    def rp(m):
        import logging
        logging.disable(logging.CRITICAL)
        t, tg, kd = eng.model_str(m, text), eng.model_str(m, target), eng.model_str(m, kind)
        try:
            got, shape = drv_spliceall(t, tg, kd)
        except Exception as ex:  # noqa
            from pysym.harness import guard_repo_exception
            guard_repo_exception(ex)
            return {"input": [t, tg, kd], "observed": f"raised {type(ex).__name__}: {ex}", "expected": "splice or TypeError"}
        if got == expect_all(shape, tg, kd):
            return None
        return {"input": [t, tg, kd], "observed": got, "expected": expect_all(shape, tg, kd)}
    E = eng.I.models.eq_simple
    for W in worlds:
        if W.exc is not None:
            rec.require(W, True, "no-other-exception", rp)
            continue
        got, shape = W.result
        # the world is concrete in (target, kind, shape) up to the guard: enumerate the (target, kind) pairs it admits
        bad = False
        for tg in ALL_TARGETS:
            for kd in ALL_KINDS:
                here = b_and(E(target, tg), E(kind, kd))
                if here is False:
                    continue
                if got != expect_all(shape, tg, kd):
                    bad = b_or(bad, here)
        rec.require(W, bad, "splice-semantics-every-type", rp)
        if "F" in shape:
            rec.witness("failed-block-spliced", W, E(target, "F"))
    return rec.result(worlds=len(worlds))


def task_rename():
    """a block middleware that changes keys in place: the result is a library built from the returned blocks (its views
    and its duplicate detection see the NEW keys: 'ab' and 'Ab' both become 'AB')"""
    eng = Engine()
    eng.own_class(TagFields, TagLib, Splice, AddBlock, SpliceAll, RenameStrings, DropAll)
    rec = Recorder(eng)
    text, syms = sym_doc(eng)
    worlds = eng.run(drv_rename, [text])
    exp = ([("String", "AB"), ("DuplicateBlockKeyBlock", "AB")], ["AB"], True, 1)

    def rp(m):
        import logging
        logging.disable(logging.CRITICAL)
        t = eng.model_str(m, text)
        try:
            got = drv_rename(t)
        except Exception as ex:  # noqa
            from pysym.harness import guard_repo_exception
            guard_repo_exception(ex)
            return {"input": t, "observed": f"raised {type(ex).__name__}: {ex}", "expected": "library re-indexed"}
        if got == exp:
            return None
        return {"input": t, "observed": list(got), "expected": list(exp)}
    for W in worlds:
        if W.exc is not None:
            rec.require(W, True, "no-other-exception", rp)
            continue
        rec.require(W, W.result != exp, "result-is-a-library-of-the-returned-blocks", rp)
        rec.witness("keys-renamed", W)
    return rec.result(worlds=len(worlds))


def task_files(enc, target_kind):
    eng = Engine()
    rec = Recorder(eng)
    content, syms = sym_doc(eng, "\x0c")      # text read from a file may hold a form feed (a CR never arrives: universal newlines)
    log = []
    install_open(eng, content, log)
    fobj_log = []
    fileobj = make_file(fobj_log, "")
    E = eng.I.models.eq_simple
    ctx = {"fileobj": fileobj, "log": log, "flog": fobj_log}
    worlds = eng.run(drv_files, [content, enc, target_kind, ctx])
    for W in worlds:
        rp = lambda m: {"input": [eng.model_str(m, content), enc, target_kind], "observed": "file layer differs (engine-level check; open() is a stub)",
                        "expected": "parse_file == parse_string(content); write_file writes write_string's text once"} if native_files(eng.model_str(m, content), enc, target_kind) else None
        if W.exc is not None:
            rec.require(W, True, "no-exception", rp)
            continue
        df, ds, text = W.result
        # the world's own copies of the logs are reachable through the frames' arguments: they were returned by reference
        wl = W.tags.get("log")
        rec.require(W, b_not(E(df, ds)), "parse_file-equals-parse_string", rp)
        rec.witness("file-parsed", W)
    # log checks are done natively in native_files() with a real temporary file in replay; here check the stub logs of world 0
    return rec.result(worlds=len(worlds))


def native_files(content, enc, target_kind):
    """real files, real codecs (outside the symbolic claim, used as replay oracle): returns True if the property FAILS"""
    import tempfile, os, io, logging
    logging.disable(logging.CRITICAL)
    d = tempfile.mkdtemp()
    try:
        p = os.path.join(d, "in.bib")
        try:
            data = content.encode(enc)
        except UnicodeError:
            return False
        with open(p, "wb") as f:
            f.write(data)
        lf = desc(EP.parse_file(p, encoding=enc))
        with open(p, encoding=enc, newline=None) as f:
            decoded = f.read()
        ls = EP.parse_string(decoded)
        if lf != desc(ls):
            return True
        text = EP.write_string(ls)
        if target_kind == "path":
            q = os.path.join(d, "out.bib")
            EP.write_file(q, ls)
            with open(q, newline="") as f:
                back = f.read()
            return back.replace(os.linesep, "\n") != text and back != text
        buf = io.StringIO()
        EP.write_file(buf, ls)
        return buf.getvalue() != text
    finally:
        import shutil
        shutil.rmtree(d, ignore_errors=True)


def filelog_run(content, enc, target_kind, opener):
    """shared by the symbolic run (opener = engine stub installed beforehand) and the native replay (mock open)"""
    return drv_files(content, enc, target_kind, opener)


def native_filelog(enc, target_kind, sv=None):
    """replay on the real code with builtins.open mocked: returns a description if the call log is wrong"""
    import builtins, logging
    from unittest import mock
    logging.disable(logging.CRITICAL)
    content = "@a{k, t = {v}}\n"
    log, flog = [], []

    class F:
        def __init__(self, lg):
            self.lg = lg

        def read(self):
            self.lg.append(("read",)); return content

        def write(self, t):
            self.lg.append(("write", t)); return len(t)

        def __enter__(self):
            return self

        def __exit__(self, *a):
            self.lg.append(("close",)); return None

    def fake_open(path, mode="r", *a, **k):
        log.append(("open", path, mode, k.get("encoding")))
        return F(log)
    try:
        with mock.patch.object(builtins, "open", fake_open):
            df, ds, text = drv_files(content, enc, target_kind, {"fileobj": F(flog)}, sv)
    except Exception as ex:  # noqa
        return f"raised {type(ex).__name__}: {ex}"
    exp_read = [("open", "some/path.bib", "r", enc), ("read",), ("close",)]
    if target_kind == "path":
        ok = log == exp_read + [("open", "out/path.bib", "w", None), ("write", text), ("close",)] and flog == [] and df == ds
    else:
        ok = log == exp_read and flog == [("write", text)] and df == ds
    return None if ok else f"log={log} fileobj_log={flog}"


def task_filelog(enc, target_kind, sv=None):
    """concrete-mode run of the file wrappers against the open() stub: exact call log"""
    eng = Engine()
    eng.own_class(TagFields, TagLib, Splice, AddBlock, SpliceAll, RenameStrings, DropAll)
    rec = Recorder(eng)
    content = "@a{k, t = {v}}\n"
    log = []
    install_open(eng, content, log)
    flog = []
    ctx = {"fileobj": make_file(flog, ""), "log": log, "flog": flog}

    def drv(content, enc, target_kind, ctx):
        r = drv_files(content, enc, target_kind, ctx, sv)
        return r, ctx["log"], ctx["flog"]

    def rp(m):
        r = native_filelog(enc, target_kind, sv)
        if r is None:
            return None
        return {"input": [enc, target_kind, sv], "observed": r, "expected": "open(path, encoding=enc) + read once; write exactly write_string's text once"}
    worlds = eng.run(drv, [content, enc, target_kind, ctx])
    for W in worlds:
        bad = True
        if W.exc is None:
            (df, ds, text), lg, fl = W.result
            exp_read = [("open", "some/path.bib", "r", enc), ("read",), ("close",)]
            if target_kind == "path":
                exp_write = [("open", "out/path.bib", "w", None), ("write", text), ("close",)]
                bad = not (lg == exp_read + exp_write and fl == [] and df == ds)
            else:
                bad = not (lg == exp_read and fl == [("write", text)] and df == ds)
        rec.require(W, bad, "file-call-log", rp)
        rec.witness("file-log-checked", W)
    return rec.result(worlds=len(worlds))


def main():
    chk = Check("C20", __doc__)
    chk.bounds = {"document": "'@a{K, t = {v}, u = w}' + newline + 2 | 3 symbolic characters over the splitter alphabet; K symbolic over {a,b}; and documents that are just 2 symbolic characters (possibly blank) with content-generating probes",
                  "shipped middlewares": "ResolveStringReferences / RemoveEnclosing (the default parse stack's classes, one or both) and NormalizeFieldKeys appended or as the stack; AddEnclosing prepended once / twice or in the stack", "stacks": "parse_stack / unparse_stack in {None, [], 1, 2, 3 probes}, append / prepend in {None, [], 1, 2 probes}, block and library probes mixed, passed as list / tuple / one-shot iterator",
                  "splice results": sorted(SPLICE), "splice at transform_block level": "document with String, Preamble, ExplicitComment, ImplicitComment, Entry, duplicate-key (failed) block + 2 symbolic characters; target block type symbolic over S/P/X/I/E/F, result kind symbolic over None, [], block, [a,b], (b,a), [a,a], 5, [a,7], same", "file layer": "open() stub; encodings utf-8/latin-1/gbk/utf-16 passed through; path and file-object targets; the file wrappers with default stacks and with one-shot iterator / empty parse_stack, append_middleware (write_file: its parse_stack / append_middleware arguments) against the string entry points given the same stacks as lists"}
    chk.assumptions = ["real codecs / the OS are outside the claim: open() is a stub that records its arguments; only the pass-through of path/encoding and the equality with parse_string(content) / write_string(...) are claimed",
                       "probe middlewares are the three classes defined in checks/c20.py"]
    chk.stubs = ["builtins.open -> recording stub file"]
    chk.expected_vacuity = ["both-given-rejected", "probes-applied", "entry-spliced", "failed-block-spliced", "keys-renamed", "file-parsed", "file-log-checked", "repeated-calls"]
    deep = chk.tier == "thorough"
    TAIL[0] = 3 if deep else 2
    stacks = [None, [], ["b1"], ["b1", "l2"], ["l2", "b1"]] + ([["b1", "b2", "l3"], ["l3", "b2", "b1"]] if deep else [["b1", "l2", "b3"]])
    extras = [None, [], ["b8"], ["b8", "l9"], ["l9", "b8"]]
    for which in ("parse", "write"):
        for st, ex in itertools.product(stacks, extras):
            for how in ("list", "tuple", "iter"):
                if how != "list" and not (st or ex):
                    continue
                if how == "tuple" and not deep and not (st is None):
                    continue
                chk.add_task(f"{which}-{st}-{ex}-{how}".replace(" ", ""), task_stack, which=which, stack_spec=st, extra_spec=ex, how=how)
    # shipped middlewares in the argument positions (R, E: the classes of the default parse stack, both at once too)
    for st, ex in ((None, ["R"]), (None, ["E"]), (None, ["R", "E"]), (None, ["E", "b1", "R"]), (["E", "R"], None), (["N", "b1"], None), (None, ["N"])):
        chk.add_task(f"parse-shipped-{st}-{ex}".replace(" ", ""), task_stack, which="parse", stack_spec=st, extra_spec=ex, how="list")
    for st, ex in ((None, ["A"]), (None, ["A", "A"]), (["A", "b1"], None), (None, ["N", "A"])):
        chk.add_task(f"write-shipped-{st}-{ex}".replace(" ", ""), task_stack, which="write", stack_spec=st, extra_spec=ex, how="list")
    for which in ("parse", "write"):
        for st, ex in ((None, ["c7"]), (["c1", "c2"], None), (["c1"], ["c2"]), ([], []), (None, None), (["c2", "c1"], None), (None, ["c1", "c2"])):
            chk.add_task(f"{which}-blank-{st}-{ex}".replace(" ", ""), task_stack, which=which, stack_spec=st, extra_spec=ex, how="list", doc="blank")
    # a middleware whose result is the empty library, alone / first / last in the stack and in the extra position
    chk.bounds["empty result"] = "a probe returning a new empty library: as the stack, first and last in it, appended / prepended, followed by a content-generating probe"
    for which in ("parse", "write"):
        for st, ex in ((None, ["d9"]), (["d1"], None), (["b1", "d2"], None), (["d1", "c2"], None), (None, ["d1", "c2"]), (["c1", "d2"], None), (["d1"], ["b2"])):
            chk.add_task(f"{which}-drop-{st}-{ex}".replace(" ", ""), task_stack, which=which, stack_spec=st, extra_spec=ex, how="list")
    for kind in SPLICE:
        chk.add_task(f"splice-{kind}", task_splice, kind=kind)
    chk.add_task("splice-every-type", task_spliceall)
    chk.add_task("rename-keys-in-place", task_rename)
    chk.add_task("repeated-calls", task_repeat)
    for enc, tk in itertools.product(("utf-8", "latin-1", "gbk", "utf-16"), ("path", "obj")):
        chk.add_task(f"files-{enc}-{tk}", task_files, enc=enc, target_kind=tk)
        chk.add_task(f"filelog-{enc}-{tk}", task_filelog, enc=enc, target_kind=tk)
        if enc in ("utf-8", "gbk"):
            for sv in STACK_VARIANTS[1:]:
                chk.add_task(f"filelog-{enc}-{tk}-{sv}", task_filelog, enc=enc, target_kind=tk, sv=sv)
    chk.run()


if __name__ == "__main__":
    main()
