"""C08 — Library views stay consistent under any sequence of add / remove / replace.

Encoded: all of Library (add, remove, replace, _add_to_dicts, _cast_to_duplicate, every view property),
DuplicateBlockKeyBlock, Block.__eq__ (list.remove / list.index go through the engine's models, which call
the interpreted __eq__).
Symbolic: the key of every Entry / String of the block universe (1 char over {a,b}); operation kinds and
their argument positions are enumerated (every history of <= k calls).
Per step the driver (interpreted) computes the expected post-state from the pre-state as the statement
words it, and checks: block list (append / delete / same position, wrapper iff the key collides with a
live block of the same kind), representation invariant (indexes = keys of the held Entry/String objects,
no shared keys), views (entries in block order, dict views, five-way partition) and that a call raising
ValueError leaves blocks and both indexes as they were.
"""
import sys
import itertools

from pysym.engine import Engine
from pysym.values import *  # noqa
from pysym.harness import Check, Recorder

from bibtexparser.library import Library
from bibtexparser import model as M

UNIVERSE = "EESSPXFX"    # kinds of the universe blocks u0..u7 (u7 is a second object EQUAL in value to u5)


def mk_universe(keys):
    u = []
    i = 0
    for kd in UNIVERSE:
        if kd == "E":
            # u0 has no fields, u2 an empty value: "empty" content must not make a held block count as absent
            u.append(M.Entry("article", keys[i], [M.Field("t", "v" + str(i))] if i > 0 else [], i, "r" + str(i)))
        elif kd == "S":
            u.append(M.String(keys[i], ("v" + str(i)) if i > 2 else "", i, "r" + str(i)))
        elif kd == "P":
            u.append(M.Preamble("p", i, "r" + str(i)))
        elif kd == "X":
            u.append(M.ExplicitComment("c", 5, "r5"))       # u5 == u7 (Block.__eq__), u5 is not u7
        else:
            u.append(M.ParsingFailedBlock(Exception("e"), i, "r" + str(i)))
        i += 1
    return u


def idx_of(lst, x):
    """position of x in lst: of the object itself when it is held, else of the first block equal to it; -1 if none
    ("remove x", "replace x ... keeping the position" speak about the block handed in)"""
    i = 0
    for y in lst:
        if y is x:
            return i
        i += 1
    i = 0
    for y in lst:
        if y == x:
            return i
        i += 1
    return -1


def live_collision(pre, b, skip):
    """is there a held live block of the same kind (other than index `skip`) with b's key?"""
    i = 0
    for x in pre:
        if i != skip:
            if isinstance(b, M.Entry) and isinstance(x, M.Entry) and x.key == b.key:
                return True
            if isinstance(b, M.String) and isinstance(x, M.String) and x.key == b.key:
                return True
        i += 1
    return False


def matches(actual, expected):
    """expected: block object, or ('dup', inner)"""
    if isinstance(expected, tuple):
        return isinstance(actual, M.DuplicateBlockKeyBlock) and actual.ignore_error_block is expected[1]
    return actual is expected


def same_list(actual, expected):
    if len(actual) != len(expected):
        return False
    i = 0
    for e in expected:
        if not matches(actual[i], e):
            return False
        i += 1
    return True


def invariant(lib):
    blocks = lib.blocks
    ents = [b for b in blocks if isinstance(b, M.Entry)]
    strs = [b for b in blocks if isinstance(b, M.String)]
    ed = lib.entries_dict
    sd = lib.strings_dict
    ok = len(ed) == len(ents) and len(sd) == len(strs)
    for b in ents:
        if not (b.key in ed and ed[b.key] is b):
            ok = False
    for b in strs:
        if not (b.key in sd and sd[b.key] is b):
            ok = False
    # views
    e2 = lib.entries
    if len(e2) != len(ents):
        ok = False
    else:
        i = 0
        for b in ents:
            if e2[i] is not b:
                ok = False
            i += 1
    s2 = lib.strings
    if len(s2) != len(strs):
        ok = False
    for b in strs:
        hit = False
        for x in s2:
            if x is b:
                hit = True
        if not hit:
            ok = False
    n_other = len(lib.preambles) + len(lib.comments) + len(lib.failed_blocks)
    if len(ents) + len(strs) + n_other != len(blocks):
        ok = False
    for b in lib.preambles:
        if not isinstance(b, M.Preamble):
            ok = False
    for b in lib.comments:
        if not isinstance(b, (M.ExplicitComment, M.ImplicitComment)):
            ok = False
    for b in lib.failed_blocks:
        if not isinstance(b, M.ParsingFailedBlock):
            ok = False
    return ok


def arg(lib, u, a):
    if a[0] == "u":
        return u[a[1]]
    if a[1] < len(lib.blocks):
        return lib.blocks[a[1]]
    return None


def drv(keys, ops):
    u = mk_universe(keys)
    lib = Library()
    log = []
    for op in ops:
        pre = list(lib.blocks)
        pre_e = dict(lib._entries_by_key)
        pre_s = dict(lib._strings_by_key)
        name = op[0]
        raised = False
        expected = None
        should_raise = False
        skip = False
        if name in ("add", "addf"):
            b = arg(lib, u, op[1])
            if b is None:
                skip = True
            else:
                dup = live_collision(pre, b, -1)
                expected = pre + [("dup", b) if dup else b]
                should_raise = dup and name == "addf"
                try:
                    lib.add(b, fail_on_duplicate_key=(name == "addf"))
                except ValueError:
                    raised = True
        elif name in ("add2", "add2f"):
            b1 = arg(lib, u, op[1])
            b2 = arg(lib, u, op[2])
            if b1 is None or b2 is None:
                skip = True
            else:
                d1 = live_collision(pre, b1, -1)
                mid = pre + [("dup", b1) if d1 else b1]
                live_mid = pre + ([] if d1 else [b1])
                d2 = live_collision(live_mid, b2, -1)
                expected = mid + [("dup", b2) if d2 else b2]
                should_raise = (d1 or d2) and name == "add2f"
                try:
                    lib.add([b1, b2], fail_on_duplicate_key=(name == "add2f"))
                except ValueError:
                    raised = True
        elif name == "remove_all":
            # the list handed in is the library's own block list (lib.blocks): everything held is removed
            expected = []
            try:
                lib.remove(lib.blocks)
            except ValueError:
                raised = True
        elif name == "add_all":
            # ... and adding that list adds every held block once more (entries / strings as duplicates of themselves)
            expected = pre + [("dup", b) if isinstance(b, (M.Entry, M.String)) else b for b in pre]
            try:
                lib.add(lib.blocks)
            except ValueError:
                raised = True
        elif name == "addf_gen":
            # blocks handed in as a one-shot iterator, with the flag: a duplicate must still be reported
            b = arg(lib, u, op[1])
            if b is None:
                skip = True
            else:
                dup = live_collision(pre, b, -1)
                expected = pre + [("dup", b) if dup else b]
                should_raise = dup
                try:
                    lib.add((x for x in [b]), fail_on_duplicate_key=True)
                except ValueError:
                    raised = True
        elif name in ("remove_copy", "replace_copy"):
            # the argument is an EQUAL copy of a held block (not the object itself): the first equal block goes, and
            # the key index follows
            h = arg(lib, u, op[1])
            if h is None:
                skip = True
            else:
                import copy as _copy
                twin = _copy.deepcopy(h)
                p = idx_of(pre, twin)
                if p < 0:
                    should_raise = True
                    expected = pre
                elif name == "remove_copy":
                    expected = pre[:p] + pre[p + 1:]
                else:
                    new = arg(lib, u, op[2])
                    dup = live_collision(pre, new, p)
                    expected = pre[:p] + [("dup", new) if dup else new] + pre[p + 1:]
                try:
                    if name == "remove_copy":
                        lib.remove(twin)
                    else:
                        lib.replace(twin, arg(lib, u, op[2]), fail_on_duplicate_key=False)
                except ValueError:
                    raised = True
        elif name == "remove":
            b = arg(lib, u, op[1])
            if b is None:
                skip = True
            else:
                p = idx_of(pre, b)
                if p < 0:
                    should_raise = True
                    expected = pre
                else:
                    expected = pre[:p] + pre[p + 1:]
                try:
                    lib.remove(b)
                except ValueError:
                    raised = True
        elif name == "remove2":
            b1 = arg(lib, u, op[1])
            b2 = arg(lib, u, op[2])
            if b1 is None or b2 is None:
                skip = True
            else:
                p = idx_of(pre, b1)
                if p < 0:
                    should_raise = True
                    expected = pre
                else:
                    mid = pre[:p] + pre[p + 1:]
                    q = idx_of(mid, b2)
                    if q < 0:
                        should_raise = True
                        expected = pre
                    else:
                        expected = mid[:q] + mid[q + 1:]
                try:
                    lib.remove([b1, b2])
                except ValueError:
                    raised = True
        else:   # replace / replacef
            old = arg(lib, u, op[1])
            new = arg(lib, u, op[2])
            if old is None or new is None:
                skip = True
            else:
                fail = name == "replacef"
                p = idx_of(pre, old)
                if p < 0:
                    should_raise = True
                    expected = pre
                else:
                    dup = live_collision(pre, new, p)
                    if dup and fail:
                        should_raise = True
                        expected = pre
                    else:
                        expected = pre[:p] + [("dup", new) if dup else new] + pre[p + 1:]
                try:
                    lib.replace(old, new, fail_on_duplicate_key=fail)
                except ValueError:
                    raised = True
        if skip:
            log.append((name, "skipped"))
            continue
        flags = {}
        flags["raises-iff-expected"] = raised == should_raise
        if raised:
            flags["rollback"] = same_list(lib.blocks, pre) and lib._entries_by_key == pre_e and lib._strings_by_key == pre_s
            if name in ("addf", "add2f", "addf_gen"):
                # the known finding (documented behaviour): EVERY block of the call is held, duplicates wrapped, and then the
                # call raises.  Anything else than "rolled back" or "exactly that" is a different violation.
                flags["raised-add-state"] = flags["rollback"] or same_list(lib.blocks, expected)
        else:
            flags["blocks-as-expected"] = same_list(lib.blocks, expected)
        flags["invariant-and-views"] = invariant(lib)
        log.append((name, flags, raised))
    return log


def failing(log):
    out = []
    for step, rec_ in enumerate(log):
        if rec_[1] == "skipped":
            continue
        for k, v in rec_[1].items():
            if v is not True:
                out.append((step, rec_[0], k))
    return out


def known_key(fails, log):
    """classification used for the known-findings file"""
    keys = set()
    for step, name, flag in fails:
        if name in ("addf", "add2f", "addf_gen") and flag == "rollback":
            keys.add("add[fail_on_duplicate_key=True]-mutates-before-raising")
        else:
            keys.add(f"{name}:{flag}")
    return sorted(keys)


def replay(keys, ops):
    import logging
    logging.disable(logging.CRITICAL)
    import signal

    class _Hang(BaseException):
        pass

    def _alarm(signum, frame):
        raise _Hang()
    old = signal.signal(signal.SIGVTALRM, _alarm)
    signal.setitimer(signal.ITIMER_VIRTUAL, 1)      # a history of <= 4 calls takes milliseconds; 1 s of CPU time is a hang
    try:
        log = drv(keys, ops)
    except _Hang:
        return {"input": [keys, ops], "observed": "did not return within 1 s of CPU time (a call that never ends)", "expected": "every call returns"}
    except MemoryError:
        return {"input": [keys, ops], "observed": "MemoryError (a call that never ends)", "expected": "every call returns"}
    except Exception as ex:  # noqa
        signal.setitimer(signal.ITIMER_VIRTUAL, 0)
        from pysym.harness import guard_repo_exception
        guard_repo_exception(ex)
        return {"input": [keys, ops], "observed": f"raised {type(ex).__name__}: {ex}", "expected": "only ValueError, handled"}
    finally:
        signal.setitimer(signal.ITIMER_VIRTUAL, 0)
        signal.signal(signal.SIGVTALRM, old)
    f = failing(log)
    if not f:
        return None
    kk = known_key(f, log)
    return {"input": [keys, ops], "observed": [list(x) for x in f], "expected": "statement of C08",
            "known_key": kk[0] if len(kk) == 1 else None, "classes": kk}


def task(ops):
    # a history of <= 4 library calls needs a few thousand interpreted instructions; a call that never returns
    # (adding the library's own, growing block list) is cut off early
    eng = Engine(step_limit=150_000)
    rec = Recorder(eng)
    keys = [eng.sym_str(f"k{i}_", 1, "ab") if kd in "ES" else "" for i, kd in enumerate(UNIVERSE)]
    worlds = eng.run(drv, [keys, ops])
    for W in worlds:
        rp = lambda m: replay(eng.model_value(m, keys), ops)
        if W.exc is not None:
            rec.require(W, True, "no-other-exception", rp)
            continue
        f = failing(W.result)
        # one obligation per failing class so that a known finding does not hide another class
        classes = {}
        for item in f:
            classes.setdefault(known_key([item], W.result)[0], []).append(item)
        if not classes:
            rec.require(W, False, "consistent", rp)
        for kk, items in classes.items():
            def rp2(m, kk=kk):
                r = rp(m)
                if r is None:
                    return None
                if kk in r.get("classes", []):
                    r["known_key"] = kk
                    return r
                return r
            rec.require(W, True, kk, rp2)
        if any(r[1] != "skipped" and r[2] for r in W.result):
            rec.witness("a-call-raised", W)
        if any(r[1] != "skipped" and not r[2] for r in W.result):
            rec.witness("a-call-succeeded", W)
    if worlds and not rec.samples:
        ok, m = eng.query(worlds[0], True)
        if ok and worlds[0].exc is None:
            rec.samples.append({"keys": eng.model_value(m, keys), "ops": ops, "log": str(worlds[0].result)[:300]})
            rec.validated += 1
    return rec.result(worlds=len(worlds))


def op_space():
    us = [("u", i) for i in range(len(UNIVERSE))]
    hs = [("h", 0), ("h", 1)]
    ops = []
    for a in us:
        ops.append(("add", a))
    for a in (("u", 0), ("u", 1), ("u", 2), ("u", 3), ("u", 4)):
        ops.append(("addf", a))
    for a, b in ((("u", 0), ("u", 1)), (("u", 2), ("u", 3)), (("u", 0), ("u", 4)), (("u", 1), ("u", 0))):
        ops.append(("add2", a, b))
    for a, b in ((("u", 0), ("u", 1)), (("u", 0), ("u", 4)), (("u", 2), ("u", 1))):
        ops.append(("add2f", a, b))
    for a in us[:5] + hs + [("u", 5), ("u", 7)]:
        ops.append(("remove", a))
    for a, b in ((("h", 0), ("h", 1)), (("h", 0), ("u", 6)), (("u", 0), ("u", 1)), (("u", 5), ("h", 0))):
        ops.append(("remove2", a, b))
    for old in (("h", 0), ("h", 1), ("u", 0), ("u", 2)):
        for new in (("u", 1), ("u", 3), ("u", 4), ("u", 0)):
            ops.append(("replace", old, new))
            ops.append(("replacef", old, new))
    ops.append(("remove_copy", ("h", 0)))
    ops.append(("remove_copy", ("h", 1)))
    ops.append(("replace_copy", ("h", 0), ("u", 4)))
    ops.append(("replace_copy", ("h", 0), ("u", 1)))
    ops.append(("remove_all",))
    ops.append(("add_all",))
    ops.append(("addf_gen", ("u", 0)))
    ops.append(("addf_gen", ("u", 3)))
    ops.append(("replace", ("u", 7), ("u", 4)))
    ops.append(("replace", ("u", 5), ("u", 4)))
    return ops


def main():
    chk = Check("C08", __doc__)
    depth = 3 if chk.tier == "quick" else 4
    ops = op_space()
    hist = []
    for d in range(1, depth + 1):
        for h in itertools.product(ops, repeat=d):
            hist.append(list(h))
    if chk.tier == "quick":
        # depth 3 restricted: first two calls are adds (population), third anything; plus all depth <= 2
        adds = [o for o in ops if o[0] in ("add", "add2")]
        hist = [h for h in hist if len(h) <= 2 or (h[0] in adds and h[1] in adds)]
    else:
        adds = [o for o in ops if o[0] in ("add", "add2")]
        core = [o for o in adds if (o[0] == "add" and o[1][1] <= 3) or o in (("add2", ("u", 0), ("u", 1)), ("add2", ("u", 2), ("u", 3)))]
        # depth 3: first call populates; depth 4: two populating calls from the core adds, then a non-add, then anything
        hist = [h for h in hist if len(h) <= 2 or (len(h) == 3 and h[0] in adds)
                or (len(h) == 4 and h[0] in core and h[1] in core and h[2][0] not in ("add", "add2", "addf", "add2f", "add_all", "addf_gen"))]
    chk.bounds = {"universe": "u0 Entry without fields, u1 Entry; u2 String with empty value, u3 String; u4 Preamble; u5 ExplicitComment; u6 ParsingFailedBlock; u7 a second ExplicitComment equal in value to u5; every Entry/String key one symbolic character over {a,b}",
                  "operations": f"{len(ops)} concrete operation shapes (add, add with fail_on_duplicate_key, add of a 2-list with and without the flag, add of a one-shot iterator with the flag, add / remove of the library's own block list, remove, remove of a 2-list, replace in both fail modes; arguments = universe blocks or currently held blocks h0/h1)",
                  "histories": f"{len(hist)} histories of <= {depth} calls from the empty library"}
    chk.assumptions = ["histories longer than the bound are covered inductively only in the sense that every step is checked against the pre-state it actually runs from (per-step frame conditions + invariant), for the pre-states reachable within the bound",
                       "keys are one character over {a,b}"]
    chk.expected_vacuity = ["a-call-raised", "a-call-succeeded"]
    # group histories by first op to limit process overhead
    groups = {}
    for h in hist:
        groups.setdefault((len(h), str(h[0]), str(h[1]) if len(h) > 1 else ""), []).append(h)
    for (d, a, b), hs in sorted(groups.items(), key=lambda kv: -len(kv[1])):
        chk.add_task(f"d{d}-{a}-{b}", task_group, hists=hs)
    chk.run()


def task_group(hists):
    total = None
    for h in hists:
        r = task(h)
        if total is None:
            total = r
        else:
            for k in ("obligations", "unsat", "validated"):
                total[k] += r[k]
            total["violations"] += r["violations"]
            for k, v in r["vacuity"].items():
                total["vacuity"][k] = total["vacuity"].get(k, False) or v
            for k, v in r["stats"].items():
                if isinstance(v, (int, float)):
                    total["stats"][k] = total["stats"].get(k, 0) + v
            fn = {(f["file"], f["function"]): f for f in total["functions"] + r["functions"]}
            total["functions"] = list(fn.values())
    return total


if __name__ == "__main__":
    main()
