"""Engine self-test (not a property check): run with `./run_check.sh selftest`.

1. the re.finditer model against CPython's re on concrete strings (the live pattern of Splitter.split),
2. concrete-mode conformance: parse_string + write_string of every document-like literal in /repo/tests
   through the engine vs natively,
3. merged vs unmerged exploration give the same set of final results (names splitter, splitter).
Exit 0 = all agree, 2 = disagreement (engine/model error)."""
import ast
import glob
import os
import random
import re
import sys
import logging

logging.disable(logging.CRITICAL)

from pysym.engine import Engine
from pysym.values import *  # noqa
from pysym.regex import SFindIter

import bibtexparser
from bibtexparser.splitter import Splitter
from bibtexparser.middlewares import names as N

REPO = os.environ.get("VERIF_REPO", "/repo")
PATTERN = r"[\{\}\",=\n]|@[\w]*( |\t)*(?={)"


def live_pattern():
    import inspect
    src = inspect.getsource(Splitter.split)
    m = re.search(r're\.finditer\(\s*r"((?:[^"\\]|\\.)*)"', src)
    return m.group(1) if m else PATTERN


def test_regex(n=3000, seed=0):
    pat = live_pattern()
    rnd = random.Random(seed)
    sigma = '{}",=\n\\@ a#\tZ_9'
    eng = Engine()
    bad = 0
    for _ in range(n):
        s = "".join(rnd.choice(sigma) for _ in range(rnd.randint(0, 14)))
        real = [(m.start(), m.end(), m.group(0)) for m in re.finditer(pat, s, re.MULTILINE)]
        it = SFindIter(pat, s, int(re.MULTILINE))
        W = type("W", (), {"mut": 0})()
        got = []
        while True:
            ok, m = it.next_item(eng.I, W)
            if not ok:
                break
            got.append((m.s, m.e, s[m.s:m.e]))
        if got != real:
            bad += 1
            if bad < 4:
                print("regex model mismatch on", repr(s), got, real)
    return n, bad


def test_conformance():
    docs = set()
    for f in glob.glob(REPO + "/tests/**/*.py", recursive=True):
        try:
            tree = ast.parse(open(f).read())
        except SyntaxError:
            continue
        for node in ast.walk(tree):
            if isinstance(node, ast.Constant) and isinstance(node.value, str) and "@" in node.value and "{" in node.value and len(node.value) < 1500:
                docs.add(node.value)
    for f in glob.glob(REPO + "/tests/resources/*.bib"):
        t = open(f, encoding="utf-8", errors="replace").read()
        if len(t) < 3000:
            docs.add(t)
    docs = sorted(docs)[:150]

    def drv(s):
        lib = bibtexparser.parse_string(s)
        return lib, bibtexparser.write_string(lib)
    bad = 0
    for d in docs:
        eng = Engine()
        ws = eng.run(drv, [d])
        try:
            nat = bibtexparser.write_string(bibtexparser.parse_string(d))
        except Exception as e:  # noqa
            nat = f"EXC {type(e).__name__}"
        got = ws[0].result[1] if ws[0].exc is None else f"EXC {type(ws[0].exc).__name__}"
        if len(ws) != 1 or got != nat:
            bad += 1
            if bad < 4:
                print("conformance mismatch on", repr(d[:80]))
    return len(docs), bad


def result_set(fn, mk_input, merge):
    eng = Engine(merge=merge)
    s = mk_input(eng)
    ws = eng.run(fn, [s])
    out = set()
    for w in ws:
        ok, m = eng.query(w, True)
        if not ok:
            continue
        out.add(eng.keyer.key(w))
    return out, eng


def test_merge():
    bad = 0

    def splitdrv(s):
        return [(type(b).__name__, b.raw, b.start_line) for b in Splitter(s).split().blocks]
    cases = [(N.split_multiple_persons_names, lambda e: e.sym_str("a", 5, " and\\{}x")),
             (splitdrv, lambda e: e.sym_str("b", 3, '{}",=\n\\@ a'))]
    for fn, mkin in cases:
        a, _ = result_set(fn, mkin, True)
        b, _ = result_set(fn, mkin, False)
        # keys contain per-process ids of symbolic chars: compare sizes and structural shapes
        if len(a) != len(b):
            bad += 1
            print("merge/no-merge disagree:", fn.__name__, len(a), len(b))
    return len(cases), bad


REGEX_OPS = [
    (r"[ \t\n]+and[ \t\n]+", re.IGNORECASE), (r"x*", 0), (r"(a)|b", 0), (r"\s+", 0), (r"\bAnd\b", re.IGNORECASE), (r"^a|a$", re.MULTILINE),
    (r"(?P<k>\w+)=(\d*)", re.ASCII), (r"[^a-c]", re.IGNORECASE), (r".", re.DOTALL), (r"a.?b", 0), (r"(?<!\\)\{", 0), (r"\$.*[^\\]\$", 0),
    (r"@(\w+[-.:+]?)*( |\t)*(?={)", 0), (r"^[0-9]+$", 0), (r"\r\n|\r", 0),
]


def test_regex_ops(n=2500, seed=1):
    """split / sub / findall / finditer / search / fullmatch of the model against CPython on concrete strings, incl. empty
    matches, IGNORECASE / ASCII / DOTALL / MULTILINE, word boundaries, groups"""
    from pysym.regex import regex_split, regex_sub, regex_findall, regex_once, all_matches
    rnd = random.Random(seed)
    sigma = 'aAbnNdDx \t\n\r=1{$\\@-\u017f\u212a'
    eng = Engine()
    W = type("W", (), {"mut": 0})()
    bad = 0
    for _ in range(n):
        pat, fl = rnd.choice(REGEX_OPS)
        s = "".join(rnd.choice(sigma) for _ in range(rnd.randint(0, 10)))
        rx = re.compile(pat, fl)
        cnt = rnd.choice((0, 0, 1, 2))
        pairs = [
            ("split", rx.split(s, cnt), regex_split(eng.I, W, rx, s, cnt)),
            ("findall", rx.findall(s), regex_findall(eng.I, W, rx, s)),
            ("sub", rx.sub(r"<\g<0>>", s, cnt), regex_sub(eng.I, W, rx, r"<\g<0>>", s, cnt)),
            ("subn", rx.subn("-", s), regex_sub(eng.I, W, rx, "-", s, 0, 0, True)),
            ("spans", [m.span() for m in rx.finditer(s)], [(m.s, m.e) for m in all_matches(eng.I, W, rx.pattern, s, int(rx.flags & ~re.UNICODE))]),
        ]
        # Pattern.finditer(s, pos): pos does not slice ('^' / look-behind see what stands before it)
        from pysym.regex import SFindIter
        p0 = rnd.randint(0, len(s) + 1)
        it = SFindIter(rx.pattern, s, int(rx.flags & ~re.UNICODE))
        it.pos = min(p0, len(s))
        got_spans = []
        while True:
            okm, m = it.next_item(eng.I, W)
            if not okm:
                break
            got_spans.append((m.s, m.e))
        pairs.append(("finditer-pos", [m.span() for m in rx.finditer(s, p0)], got_spans))
        for kind in ("match", "search", "fullmatch"):
            r = getattr(rx, kind)(s)
            g = regex_once(eng.I, W, kind, rx, s, 0)
            pairs.append((kind, None if r is None else (r.span(), r.groups()),
                          None if g is None else ((g.s, g.e), tuple(None if sp is None else s[sp[0]:sp[1]] for sp in g.groups_))))
            r = getattr(rx, kind)(s, p0)
            g = regex_once(eng.I, W, kind, rx, s, 0, p0)
            pairs.append((kind + "-pos", None if r is None else (r.span(), r.groups()),
                          None if g is None else ((g.s, g.e), tuple(None if sp is None else s[sp[0]:sp[1]] for sp in g.groups_))))
        for kind, real, got in pairs:
            if real != got:
                bad += 1
                if bad < 6:
                    print("regex op mismatch", kind, repr(pat), fl, repr(s), "model", got, "re", real)
    return n * 12, bad


def test_str_methods(n=200, seed=3):
    """symbolic str methods (partition, rpartition, split/rsplit with maxsplit, replace with count, count, removeprefix/
    suffix, ljust/rjust/center) against CPython: the world selected by a concrete value must hold CPython's results"""
    def drv(s, sep, k):
        return (s.partition(sep), s.rpartition(sep), s.split(sep, k), s.rsplit(sep, k), s.rsplit(sep), s.replace(sep, "<>", k), s.count(sep),
                s.removeprefix(sep), s.removesuffix(sep), s.ljust(7, "."), s.rjust(7), s.center(8, "*"), s.center(7, "*"),
                s.find(sep), s.rfind(sep), s.startswith(sep), s.endswith(sep), s.strip("="), s.lstrip("a"), s.split(sep),
                f"{s:<6}|", f"{s:>{k + 4}}|", f"{s:*^7}|", f"{s:.2}|", f"{s!r:>9}|",
                "%-*s|%4s|%-3d|%%" % (k + 3, s, sep, k), "%*s|" % (k - 4, s), "%-6s=%s" % (s, sep),
                s.count(sep, k), s.count(sep, 1, 4), s.count("", k + 1, 3), s.find(sep, k + 1), s.rfind(sep, 0, 3))
    rnd = random.Random(seed)
    bad = 0
    norm = lambda x: tuple(tuple(y) if isinstance(y, (list, tuple)) else y for y in x)
    for _ in range(n):
        L = rnd.randint(0, 5)
        conc = "".join(rnd.choice("ab=") for _ in range(L))
        sep = rnd.choice(["=", "ab", "a", "=="])
        k = rnd.choice([-1, 0, 1, 2])
        eng = Engine()
        s = eng.sym_str("s", L, "ab=")
        got = None
        for W in eng.run(drv, [s, sep, k]):
            ok, m = eng.query(W, eng.I.models.eq_simple(s, conc))
            if ok and W.exc is None:
                got = eng.model_value(m, W.result)
        exp = drv(conc, sep, k)
        if got is None or norm(got) != norm(exp):
            bad += 1
            if bad < 4:
                print("str method mismatch on", repr(conc), repr(sep), k, got, exp)
    return n, bad


def main():
    total_bad = 0
    for name, f in (("regex-model", test_regex), ("regex-operations", test_regex_ops), ("str-methods", test_str_methods), ("concrete-conformance", test_conformance), ("merge-equivalence", test_merge)):
        n, bad = f()
        print(f"selftest {name}: {n} cases, {bad} disagreements")
        total_bad += bad
    sys.exit(2 if total_bad else 0)


if __name__ == "__main__":
    import argparse
    ap = argparse.ArgumentParser()
    ap.add_argument("--tier", default="quick")
    ap.parse_known_args()
    main()
