"""C04 — malformed blocks never damage neighbours: parsing resyncs at the next @block.

Encoded: Splitter (all) + Library.add.  Symbolic: X in D1 + X + newline + D2 for concrete
well-formed D1 (ending in a complete block, possibly empty) and D2 (starting with '@type{').
Obligation per final world: blocks(parse(D1)) is a prefix and blocks(parse(D2)) a suffix of the
result (class, type, key, fields, values, comment/preamble/string text and raw; start_line also for
the prefix), and with X blank there is nothing in between.
"""
import sys

from pysym.engine import Engine
from pysym.values import *  # noqa
from pysym.harness import Check, Recorder
from checks.splitcommon import *  # noqa

from bibtexparser.splitter import Splitter
from bibtexparser import model as M

D1S = {
    "empty": "",
    "entry": "@article{k1,\n author = {A B},\n title = \"T {x}\",\n}",
    "keyonly": "@misc{k1}",
    "string": "@string{s1 = \"v\" # w}",
    "comment": "@comment{c, {d}}",
    "preamble": "@preamble{ p {q} }",
    "two": "@book{k1, t = 1}\n\n@string{s1 = {v}}",
}
D2S = {
    "entry": "@article{k2,\n author = {C D},\n note = \"N {y}\" # s,\n}",
    "string": "@string{s2 = {w}}",
    "comment": "@comment{e}",
    "preamble": "@preamble{r}",
    "two": "@book{k2, u = 2}\n@misc{k3}",
    # blanks between the opening brace and the key (the resumed block's head is not glued to its brace)
    "spaced": "@book{ k2 , u = 2}\n@string{ s2 = {w}}",
}


# unterminated fragments placed before X: only the suffix clause applies to them
FRAGMENTS = {
    "str-nokey": "@string{s", "str-val": "@string{s = ", "comment": "@comment{", "preamble": "@preamble{ p",
    "quoted": "@a{k, t = \"", "braced": "@a{k, t = {", "nofield-eq": "@a{k, t", "nokey-comma": "@a{k", "open": "@a{",
    "quote-brace": "@a{k, t = \"{", "after-field": "@a{k, t = 1", "string-brace": "@string{s = {",
    # an aborted entry that already completed the fields the following documents use
    "same-fields": "@a{k, author = 1, note = 2, u = 3",
}


def drv(text):
    return Splitter(text).split()


def describe(b, with_line):
    d = [type(b).__name__, b.raw]
    if with_line:
        d.append(b.start_line)
    if isinstance(b, M.Entry):
        d += [b.entry_type, b.key, [(f.key, f.value) for f in b.fields]]
    elif isinstance(b, M.String):
        d += [b.key, b.value]
    elif isinstance(b, M.Preamble):
        d += [b.value]
    elif isinstance(b, (M.ExplicitComment, M.ImplicitComment)):
        d += [b.comment]
    return d


def lines_of(b):
    """start lines recorded for a block and its fields"""
    out = [b.start_line]
    if isinstance(b, M.Entry):
        out += [f.start_line for f in b.fields]
    return out


def native_blocks(text):
    import logging
    logging.disable(logging.CRITICAL)
    return Splitter(text).split().blocks


def replay(d1, x, d2, frag=False):
    text = d1 + x + "\n" + d2
    try:
        got = native_blocks(text)
    except Exception as e:  # noqa
        from pysym.harness import guard_repo_exception
        guard_repo_exception(e)
        return {"input": text, "observed": f"raised {type(e).__name__}: {e}", "expected": "blocks"}
    b1, b2 = ([] if frag else native_blocks(d1)), native_blocks(d2)
    g = [describe(b, False) for b in got]
    p = [describe(b, True) for b in b1]
    s = [describe(b, False) for b in b2]
    if [describe(b, True) for b in got[:len(b1)]] != p:
        return {"input": text, "observed": g, "expected": f"prefix {p}"}
    if len(got) < len(b1) + len(b2) or g[len(g) - len(b2):] != s:
        return {"input": text, "observed": g, "expected": f"suffix {s}"}
    # line numbers of the suffix: those of D2 on its own, shifted by the number of line feeds before it
    shift = (d1 + x + "\n").count("\n")
    for gb, sb in zip(got[len(got) - len(b2):], b2):
        if lines_of(gb) != [l + shift for l in lines_of(sb)]:
            return {"input": text, "observed": {"lines of suffix block": lines_of(gb)}, "expected": [l + shift for l in lines_of(sb)]}
    if not frag and x.strip() == "" and len(got) != len(b1) + len(b2):
        return {"input": text, "observed": g, "expected": "concatenation law: nothing between the two documents"}
    return None


def task(n1, n2, L):
    eng = Engine()
    rec = Recorder(eng)
    frag = n1.startswith("frag:")
    d1, d2 = (FRAGMENTS[n1[5:]] if frag else D1S[n1]), D2S[n2]
    text, pos, holes = sym_text(eng, [("lit", d1), ("sym", L, SIGMA_S), ("lit", "\n" + d2)])
    (xa, xb), = holes
    xs = mk(chars(text)[xa:xb])
    E = eng.I.models.eq_simple
    b1 = [] if frag else [describe(b, True) for b in native_blocks(d1)]
    nb2 = native_blocks(d2)
    b2 = [describe(b, False) for b in nb2]
    l2 = [lines_of(b) for b in nb2]
    head = chars(text)[:xb + 1]          # D1 + X + the line feed before D2
    worlds = eng.run(drv, [text])
    for W in worlds:
        rp = lambda m: replay(d1, eng.model_str(m, xs), d2, frag)
        if W.exc is not None:
            rec.require(W, True, "no-exception", rp)
            continue
        got = W.result.blocks
        if len(got) < len(b1) + len(b2):
            rec.require(W, True, "block-count", rp)
            continue
        pre = E([describe(b, True) for b in got[:len(b1)]], b1)
        suf = E([describe(b, False) for b in got[len(got) - len(b2):]], b2)
        rec.require(W, b_not(b_and(pre, suf)), "prefix-and-suffix", rp)
        # the suffix keeps its own line structure, shifted by the number of line feeds in front of it
        lines_ok = True
        for gb, own in zip(got[len(got) - len(b2):], l2):
            mine = lines_of(gb)
            if len(mine) != len(own) or not all(isinstance(v, int) for v in mine):
                lines_ok = False
                break
            for v, o in zip(mine, own):
                lines_ok = b_and(lines_ok, count_nl_eq(head, v - o))
        rec.require(W, b_and(suf, b_not(lines_ok)), "suffix-lines-shifted", rp)
        if len(got) != len(b1) + len(b2) and not frag:
            blank = b_all(is_space(c) for c in chars(xs))
            rec.require(W, blank, "concatenation-law", rp)
            rec.witness("garbage-produced-middle-blocks", W)
        if any(isinstance(b, M.ParsingFailedBlock) for b in got):
            rec.witness("failed-block-before-resync", W)
    if worlds:
        ok, m = eng.query(worlds[len(worlds) // 2], True)
        if ok:
            x = eng.model_str(m, xs)
            rec.samples.append({"D1": n1, "X": x, "D2": n2, "native_replay": str(replay(d1, x, d2))})
            rec.validated += 1
    return rec.result(worlds=len(worlds))


def main():
    chk = Check("C04", __doc__)
    LX = 5 if chk.tier == "quick" else 6
    chk.bounds = {"alphabet of X": SIGMA_S, "X: every text of length": f"0..{LX}", "D1": sorted(D1S), "D2": sorted(D2S)}
    chk.assumptions = ["D1/D2 are the listed concrete documents; their keys use characters X cannot produce, so X cannot create a key collision",
                       "X ranges over the splitter alphabet (one representative per character class of the mark regex)"]
    chk.expected_vacuity = ["garbage-produced-middle-blocks", "failed-block-before-resync"]
    for L in range(LX, -1, -1):
        for n1 in D1S:
            for n2 in D2S:
                chk.add_task(f"{n1}+X{L}+{n2}", task, n1=n1, n2=n2, L=L)
    LF = 2 if chk.tier == "quick" else 4
    chk.bounds["unterminated fragments before X"] = f"{sorted(FRAGMENTS)} with X of length 0..{LF} (suffix clause only)"
    for L in range(LF, -1, -1):
        for fr in FRAGMENTS:
            for n2 in D2S:
                chk.add_task(f"frag-{fr}+X{L}+{n2}", task, n1="frag:" + fr, n2=n2, L=L)
    chk.run()


if __name__ == "__main__":
    main()
