"""C05 — parse -> write -> parse preserves content; the written text is a fixpoint.

Encoded: parse_string and write_string with the default stacks (Splitter, Library, ResolveStringReferences,
RemoveEnclosing, AddEnclosing on deep copies via the interpreted stdlib copy module, writer, BibtexFormat
setters).  Symbolic: grammar-derived templates (checks/grammar.py) with symbolic holes; format options:
trailing_comma (symbolic bool), value_column (symbolic int 0..12 or 'auto'), indent (enumerated + two
symbolic whitespace chars), block_separator (0..2 symbolic chars over newline/space).
Obligations per final world: parse(write(parse(s))) has the same blocks (class, type, key, field keys in
order, values, string key/value, preamble, comment text) and write(parse(t1)) == t1 character for character.
"""
import sys
import itertools

from pysym.engine import Engine
from pysym.values import *  # noqa
from pysym.harness import Check, Recorder
from checks import grammar as G

import bibtexparser
from bibtexparser import model as M
from bibtexparser.writer import BibtexFormat


def drv(text, holes, distinct, indent, sep, trailing, column):
    for kind, s in holes:
        if not G.LEGAL[kind](s):
            return None
    for group in distinct:
        i = 0
        while i < len(group):
            j = i + 1
            while j < len(group):
                if group[i] == group[j]:
                    return None
                j += 1
            i += 1
    lib1 = bibtexparser.parse_string(text)
    fmt = BibtexFormat()
    fmt.indent = indent
    fmt.block_separator = sep
    fmt.trailing_comma = trailing
    fmt.value_column = column
    t1 = bibtexparser.write_string(lib1, bibtex_format=fmt)
    lib2 = bibtexparser.parse_string(t1)
    t2 = bibtexparser.write_string(lib2, bibtex_format=fmt)
    return lib1, t1, lib2, t2


def desc(b):
    if isinstance(b, M.Entry):
        return ["Entry", b.entry_type, b.key, [(f.key, f.value) for f in b.fields]]
    if isinstance(b, M.String):
        return ["String", b.key, b.value]
    if isinstance(b, M.Preamble):
        return ["Preamble", b.value]
    if isinstance(b, (M.ExplicitComment, M.ImplicitComment)):
        return [type(b).__name__, b.comment]
    return [type(b).__name__, b.raw]


def native(text, indent, sep, trailing, column):
    import logging
    logging.disable(logging.CRITICAL)
    r = drv(text, [], [], indent, sep, trailing, column)
    lib1, t1, lib2, t2 = r
    d1, d2 = [desc(b) for b in lib1.blocks], [desc(b) for b in lib2.blocks]
    return d1 == d2 and t1 == t2 and not lib1.failed_blocks, d1, d2, t1, t2


def task(spec, indent_kind, sep_len, column_kind, label):
    eng = Engine()
    rec = Recorder(eng)
    B = G.Builder(eng)
    for step in spec:
        getattr(B, step[0])(*step[1:])
    text = B.text()
    holes = [(k, mk(B.cs[a:b])) for k, a, b in B.holes if k in ("V", "SV", "K", "F", "B", "BC", "W")]
    distinct = [[B.sl(ex[2]) for ex in B.expect if ex[0] == "Entry" and ex[2] is not None], [B.sl(ex[1]) for ex in B.expect if ex[0] == "String"]]
    for ex in B.expect:
        if ex[0] == "Entry":
            distinct.append([B.sl(fk) for fk, v in ex[3] if fk is not None])
    indent = {"empty": "", "space": " ", "tab": "\t"}.get(indent_kind)
    if indent is None:
        indent = eng.sym_str("i", 2, " \t")
    sep = eng.sym_str("s", sep_len, "\n ") if sep_len else ""
    trailing = eng.sym_bool("trailing")
    column = "auto" if column_kind == "auto" else eng.sym_int("col", 0, 12)
    E = eng.I.models.eq_simple
    worlds = eng.run(drv, [text, holes, distinct, indent, sep, trailing, column])

    def rp(m):
        mv = lambda x: eng.model_value(m, x)
        args = (eng.model_str(m, text), mv(indent), mv(sep), mv(trailing), mv(column))
        for kind, s in holes:
            if not G.LEGAL[kind](eng.model_str(m, s)):
                return None
        for g in distinct:
            vals = [eng.model_str(m, x) for x in g]
            if len(set(vals)) != len(vals):
                return None
        try:
            ok, d1, d2, t1, t2 = native(*args)
        except Exception as e:  # noqa
            from pysym.harness import guard_repo_exception
            guard_repo_exception(e)
            return {"input": list(args), "observed": f"raised {type(e).__name__}: {e}", "expected": "round trip"}
        if ok:
            return None
        return {"input": list(args), "observed": {"blocks1": d1, "blocks2": d2, "t1": t1, "t2": t2}, "expected": "same blocks, t2 == t1, no failed block"}

    for W in worlds:
        if W.exc is not None:
            rec.require(W, True, "no-exception", rp)
            continue
        if W.result is None:
            continue
        lib1, t1, lib2, t2 = W.result
        rec.witness("legal-document", W)
        if len(lib1.blocks) != len(lib2.blocks) or any(isinstance(b, M.ParsingFailedBlock) for b in lib1.blocks + lib2.blocks):
            rec.require(W, True, "same-block-count-no-failure", rp)
            continue
        same = b_all(E(desc(a), desc(b)) if type(a) is type(b) else False for a, b in zip(lib1.blocks, lib2.blocks))
        fix = E(t1, t2) if is_strlike(t1) and is_strlike(t2) else False
        rec.require(W, b_not(b_and(same, fix)), "roundtrip-and-fixpoint", rp)
        if len(rec.samples) < 1:
            ok, m = eng.query(W, True)
            if ok:
                mv = lambda x: eng.model_value(m, x)
                rec.samples.append({"document": eng.model_str(m, text), "format": [mv(indent), mv(sep), mv(trailing), mv(column)], "written": mv(t1)})
                rec.validated += 1
    return rec.result(label=label, worlds=len(worlds))


def specs(tier):
    big = tier == "thorough"
    v = 3 if not big else 4
    single = [
        ("entry0", [("entry", 0, 1, 1, 0, False)]),
        ("entry1", [("entry", 1, 1, 4 if not big else 5, 1, False)]),
        ("entry1t", [("entry", 1, 1, v, 0, True)]),
        ("entry2", [("entry", 2, 1, 2, 0, False)]),
        ("entry-k2", [("entry", 1, 2, 1, 0, False)]),
        ("string", [("string", 1, v, 0)]),
        ("preamble", [("preamble", v)]),
        ("comment", [("comment", v)]),
        ("free", [("free", 3)]),
        ("entry1-hw", [("entry", 1, 1, 2, 0, False, 1)]),
        ("string-hw", [("string", 1, 2, 0, 1)]),
        ("preamble-hw", [("preamble", 2, 1)]),
        ("comment-hw", [("comment", 2, 1)]),
    ]
    small = {"entry": ("entry", 1, 1, 1, 0, False), "string": ("string", 1, 1, 0), "preamble": ("preamble", 1),
             "comment": ("comment", 1), "free": ("free", 2)}
    pairs = []
    for a, b in itertools.product(small, small):
        if a == "free" and b == "free":
            continue
        pairs.append((f"pair-{a}-{b}", [small[a], ("sep", 1), small[b]]))
    # string definition before / after its use
    pairs.append(("strref-before", [("string", 1, 2, 0), ("sep", 1), ("entry", 1, 1, 1, 0, False)]))
    pairs.append(("refchain", [("refchain",)]))
    pairs.append(("idfield-ID", [("idfield", "ID")]))
    pairs.append(("idfield-ENTRYTYPE", [("idfield", "ENTRYTYPE")]))
    for n in range(1, (5 if not big else 6) + 1):
        pairs.append((f"macroshadow-{n}", [("macroshadow", n)]))
    # '@' + line break(s) / blanks in front of a nested group inside a braced value
    for n in (3, 2, 1):
        pairs.append((f"atvalue-{n}", [("atvalue", n)]))
    # a quote-enclosed value with braces / backslashes / filler inside (written brace-enclosed: `"a \\\\{b} c"` must not gain a layer)
    for n in ((4, 5) if big else (4,)):
        pairs.append((f"qentry-{n}", [("qentry", n)]))
    pairs.append(("strref-after", [("entry", 1, 1, 1, 0, False), ("sep", 1), ("string", 1, 2, 0)]))
    triples = []
    if big:
        for a, b, c in itertools.product(("entry", "string", "comment", "free"), repeat=3):
            if (a == "free" and b == "free") or (b == "free" and c == "free"):
                continue
            triples.append((f"triple-{a}-{b}-{c}", [small[a], ("sep", 1), small[b], ("sep", 1), small[c]]))
    return single, pairs, triples


def main():
    chk = Check("C05", __doc__)
    single, pairs, triples = specs(chk.tier)
    chk.bounds = {"templates": f"{len(single)} single blocks, {len(pairs)} pairs, {len(triples)} triples (holes as in C02, values <= {3 if chk.tier == 'quick' else 4} chars)",
                  "macro-shaped literals": "@string{x = {S}} + entry with f = '{' + 1..5 | 6 characters over x # \" blank 1 + '}'", "quote-enclosed values": "f = '\"' + 4 (thorough: 4..5) characters over " + repr(G.Q_SIGMA) + " + '\"' restricted to `value`", "'@' inside a value": "f = '{' + 1..3 characters over '@', line feed, blank, x + '{y}}'", "format": "trailing_comma symbolic; value_column symbolic 0..12 or 'auto'; indent in {'', ' ', tab, 2 symbolic blanks/tabs}; block_separator 0..2 symbolic chars over newline/space"}
    chk.assumptions = ["separators and indents contain whitespace only (anything else writes extra free text by construction)",
                       "documents without duplicate block/field keys (C09)",
                       "@comment bodies whose whitespace-stripped text ends in an unescaped backslash are excluded (the comment is stored stripped, which cuts the escape; DESIGN §4 C05)", "grammar-derived documents within the hole bounds"]
    chk.expected_vacuity = ["legal-document"]
    for name, spec in single:
        for ik, sl, ck in itertools.product(("tab", "sym"), (0, 2), ("int", "auto")):
            chk.add_task(f"{name}-{ik}-s{sl}-{ck}", task, spec=spec, indent_kind=ik, sep_len=sl, column_kind=ck, label=name)
    for name, spec in pairs + triples:
        for ik, sl, ck in (("tab", 2, "int"), ("empty", 1, "auto"), ("space", 0, "int")):
            chk.add_task(f"{name}-{ik}-s{sl}-{ck}", task, spec=spec, indent_kind=ik, sep_len=sl, column_kind=ck, label=name)
    chk.run()


if __name__ == "__main__":
    main()
