"""Executable transcription of the C13 statement (BibTeX First/von/Last/Jr rules).

Written from the statement, not from the implementation.  Works on plain str natively and on
SStr when interpreted by pysym (it only uses indexing, len, ==, in, str.isalpha/isupper).
Returns a tuple:
   ("invalid",)                       unbalanced braces / more than two commas / trailing comma
   ("unspecified",)                   input in a zone the statement does not fix (see DESIGN C13)
   ("ok", first, von, last, jr)       lists of words (slices of the input)
"""

SEP = " ~\r\n\t"


def tokenize(name):
    """-> (status, sections) ; sections = list of lists of [start, end, case]; case 1 upper, 0 lower, -1 none"""
    n = len(name)
    secs = [[]]
    i = 0
    depth = 0
    ws = -1       # start of the current word or -1
    case = -1
    commas = 0
    unspecified = False
    while i < n:
        c = name[i]
        if c == "\\":
            if i + 1 < n and name[i + 1] not in SEP:
                e = name[i + 1]
                if ws < 0:
                    ws = i
                if depth == 0 and case == -1 and e.isalpha():
                    if e.isupper():
                        case = 1
                    else:
                        case = 0
                i += 2
                continue
            # backslash before whitespace / at the end: an ordinary character of the word
            if depth > 0:
                unspecified = True
            if ws < 0:
                ws = i
            i += 1
            continue
        if c == "{":
            if ws < 0:
                ws = i
            if i + 1 < n and name[i + 1] == "\\":
                if depth > 0:
                    unspecified = True   # nested special character: not fixed by the statement
                    depth += 1
                    i += 1
                    continue
                # special character {\cs ...} at depth 0
                j = i + 2
                if j < n and name[j] in SEP:
                    unspecified = True
                if j < n and name[j].isalpha():
                    while j < n and name[j].isalpha():
                        j += 1
                elif j < n:
                    j += 1
                d = 1
                while j < n and d > 0:
                    ch = name[j]
                    if ch == "\\" or ch == "{":
                        unspecified = True
                    if ch == "\\":
                        j += 2
                        continue
                    if ch == "{":
                        d += 1
                    elif ch == "}":
                        d -= 1
                    elif d == 1 and case == -1 and ch.isalpha():
                        if ch.isupper():
                            case = 1
                        else:
                            case = 0
                    j += 1
                if d > 0:
                    return "invalid", secs
                i = j
                continue
            depth += 1
            i += 1
            continue
        if c == "}":
            if depth == 0:
                return "invalid", secs
            depth -= 1
            i += 1
            continue
        if depth > 0:
            i += 1
            continue
        if c == "," or c in SEP:
            if ws >= 0:
                secs[-1].append([ws, i, case])
                ws = -1
                case = -1
            if c == ",":
                commas += 1
                if commas > 2:
                    return "invalid", secs
                secs.append([])
            i += 1
            continue
        if ws < 0:
            ws = i
        if case == -1 and c.isalpha():
            if c.isupper():
                case = 1
            else:
                case = 0
        i += 1
    if depth > 0:
        return "invalid", secs
    if ws >= 0:
        secs[-1].append([ws, n, case])
    if len(secs) > 1 and len(secs[-1]) == 0:
        return "invalid", secs            # trailing comma
    if unspecified:
        return "unspecified", secs
    return "ok", secs


def oracle(name):
    status, secs = tokenize(name)
    if status != "ok":
        return (status,)
    words = [[name[w[0]:w[1]] for w in sec] for sec in secs]
    cases = [[w[2] for w in sec] for sec in secs]
    first = []
    von = []
    last = []
    jr = []
    if len(secs) == 1:
        w = words[0]
        cs = cases[0]
        k = len(w)
        if k == 0:
            pass
        elif k == 1:
            last = w
        elif k == 2:
            first = w[:1]
            last = w[1:]
        else:
            # last lower-case word that is not the final word
            e = -1
            i = 0
            while i < k - 1:
                if cs[i] == 0:
                    e = i
                i += 1
            if e < 0:
                first = w[:k - 1]
                last = w[k - 1:]
            else:
                b = 0
                while cs[b] != 0:
                    b += 1
                first = w[:b]
                von = w[b:e + 1]
                last = w[e + 1:]
    else:
        w = words[0]
        cs = cases[0]
        k = len(w)
        e = -1
        i = 0
        while i < k - 1:
            if cs[i] == 0:
                e = i
            i += 1
        von = w[:e + 1]
        last = w[e + 1:]
        if len(secs) == 3:
            jr = words[1]
        first = words[-1]
    return ("ok", first, von, last, jr)
