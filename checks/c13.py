"""C13 — name parts follow BibTeX's First/von/Last/Jr rules and keep every word once.

Encoded: bibtexparser.middlewares.names.parse_single_name_into_parts (strict), NameParts,
InvalidNameError, SplitNameParts/_NameTransformerMiddleware.transform_entry, BlockMiddleware.transform,
MiddlewareErrorBlock, Library.  Oracle: checks/names_oracle.py (transcription of the statement,
validated on the repository's BibTeX-derived corpus before every run), interpreted on the same
symbolic characters.  Obligation per final world: same validity verdict and, for valid names,
identical first/von/last/jr word lists (so every top-level word appears once, in order); no
exception other than InvalidNameError; at middleware level an invalid name yields a
MiddlewareErrorBlock whose ignore_error_block is the untouched entry.
"""
import os
import sys

from pysym.engine import Engine
from pysym.values import *  # noqa
from pysym.harness import Check, Recorder

from bibtexparser.middlewares import names as N
from bibtexparser.model import Entry, Field, MiddlewareErrorBlock
from bibtexparser.library import Library
from checks import names_oracle as O

SIGMA_PART = "Ab1 ,~\x0b"
SIGMA_BRACE = "Ab ,~{}\\'"


def drv(name):
    try:
        p = N.parse_single_name_into_parts(name)
        impl = ("ok", p.first, p.von, p.last, p.jr)
    except N.InvalidNameError:
        impl = ("invalid",)
    return impl, O.oracle(name)


FIRST = "Aa Bb"      # a valid concrete first co-author: an invalid later name must not leave a half-converted list


def drv_recall(name):
    """a caller may edit the returned parts; a later split of the same name must not be affected"""
    try:
        p = N.parse_single_name_into_parts(name)
    except N.InvalidNameError:
        return None
    keep = (list(p.first), list(p.von), list(p.last), list(p.jr))
    p.first.append("edited")
    p.last.clear()
    q = N.parse_single_name_into_parts(name)
    return keep, (q.first, q.von, q.last, q.jr)


def third_ok(entry):
    w = entry.fields[2].value
    return (isinstance(w, list) and len(w) == 1 and isinstance(w[0], N.NameParts)
            and [w[0].first, w[0].von, w[0].last, w[0].jr] == [["Aa"], [], ["Bb"], []])


def drv_mw(name):
    # 'editor' is a second name field standing BEFORE the one under test: if 'author' turns out invalid, the error block
    # must retain the ORIGINAL entry, i.e. the editor must still be the list of strings.  A third field repeats the key
    # 'author' (a hand-built entry / one taken out of a DuplicateFieldKeyBlock): every field keeps ITS OWN names
    entry = Entry("article", "k", [Field("editor", [FIRST]), Field("author", [FIRST, name]), Field("author", [FIRST])])
    lib = Library([entry])
    out = N.SplitNameParts(allow_inplace_modification=True).transform(lib)
    return entry, out.blocks, O.oracle(name)


def parts_desc(lib):
    out = []
    for b in lib.blocks:
        if isinstance(b, Entry):
            out.append(("Entry", [[p.first, p.von, p.last, p.jr] if isinstance(p, N.NameParts) else p for p in b.fields[0].value]))
        else:
            out.append((type(b).__name__, None))
    return out


def drv_reuse(n1, n2):
    """one SplitNameParts instance on two libraries: the second result equals that of a fresh instance"""
    mk_lib = lambda n: Library([Entry("article", "k", [Field("author", [n, FIRST])]), Entry("book", "j", [Field("editor", [n])])])
    mw = N.SplitNameParts(allow_inplace_modification=True)
    r1 = parts_desc(mw.transform(mk_lib(n1)))
    r2 = parts_desc(mw.transform(mk_lib(n2)))
    f1 = parts_desc(N.SplitNameParts(allow_inplace_modification=True).transform(mk_lib(n1)))
    f2 = parts_desc(N.SplitNameParts(allow_inplace_modification=True).transform(mk_lib(n2)))
    return r1, f1, r2, f2


def task_reuse(L1, L2):
    eng = Engine()
    rec = Recorder(eng)
    n1 = eng.sym_str("a", L1, "Ab ,{}")
    n2 = eng.sym_str("b", L2, "Ab ,{}")
    E = eng.I.models.eq_simple
    worlds = eng.run(drv_reuse, [n1, n2])

    def rp(m):
        import logging
        logging.disable(logging.CRITICAL)
        a, b = eng.model_str(m, n1), eng.model_str(m, n2)
        try:
            r1, f1, r2, f2 = drv_reuse(a, b)
        except Exception as ex:  # noqa
            from pysym.harness import guard_repo_exception
            guard_repo_exception(ex)
            return {"input": [a, b], "observed": f"raised {type(ex).__name__}: {ex}", "expected": "no exception"}
        if r1 == f1 and r2 == f2:
            return None
        return {"input": [a, b], "observed": {"second library through the same instance": r2}, "expected": f2}
    for W in worlds:
        if W.exc is not None:
            rec.require(W, True, "reuse-no-exception", rp)
            continue
        r1, f1, r2, f2 = W.result
        rec.require(W, b_not(b_and(E(r1, f1), E(r2, f2))), "instance-holds-no-state", rp)
        rec.witness("instance-reused", W)
    return rec.result(worlds=len(worlds))


def native_parts(name):
    try:
        p = N.parse_single_name_into_parts(name)
        return ("ok", p.first, p.von, p.last, p.jr)
    except N.InvalidNameError:
        return ("invalid",)


def replay(name):
    import logging
    logging.disable(logging.CRITICAL)
    exp = O.oracle(name)
    try:
        got = native_parts(name)
    except Exception as e:  # noqa
        from pysym.harness import guard_repo_exception
        guard_repo_exception(e)
        return {"input": name, "observed": f"raised {type(e).__name__}: {e}", "expected": list(exp)}
    if exp[0] == "unspecified":
        return None
    if list(got) == list(exp):
        return None
    return {"input": name, "observed": list(got), "expected": list(exp)}


def replay_mw(name):
    import logging
    logging.disable(logging.CRITICAL)
    exp = O.oracle(name)
    if exp[0] == "unspecified":
        return None
    entry = Entry("article", "k", [Field("editor", [FIRST]), Field("author", [FIRST, name]), Field("author", [FIRST])])
    try:
        out = N.SplitNameParts(allow_inplace_modification=True).transform(Library([entry]))
    except Exception as e:  # noqa
        from pysym.harness import guard_repo_exception
        guard_repo_exception(e)
        return {"input": name, "observed": f"middleware raised {type(e).__name__}: {e}", "expected": "error block or parts"}
    b = out.blocks
    if exp[0] == "invalid":
        ok = (len(b) == 1 and isinstance(b[0], MiddlewareErrorBlock) and b[0].ignore_error_block is entry
              and entry.fields[1].value == [FIRST, name] and entry.fields[0].value == [FIRST] and entry.fields[2].value == [FIRST]
              and isinstance(b[0].error, N.InvalidNameError))
    else:
        v = entry.fields[1].value
        ok = (len(b) == 1 and b[0] is entry and isinstance(v, list) and len(v) == 2
              and isinstance(v[0], N.NameParts) and isinstance(v[1], N.NameParts)
              and [v[0].first, v[0].von, v[0].last, v[0].jr] == [["Aa"], [], ["Bb"], []]
              and [v[1].first, v[1].von, v[1].last, v[1].jr] == list(exp[1:]) and third_ok(entry))
    if ok:
        return None
    return {"input": name, "observed": f"blocks={[type(x).__name__ for x in b]} editor={entry.fields[0].value!r} author={entry.fields[1].value!r} second author field={entry.fields[2].value!r}", "expected": list(exp)}


def sym_input(eng, L, sigma, prefix):
    # pinned prefix characters are symbolic characters with a one-letter alphabet
    return mk([eng.sym_char(f"c{i}", prefix[i] if i < len(prefix) else sigma) for i in range(L)]), None


GROUP_SIGMA = "Ab\\',"


def tmpl_input(eng, tmpl):
    """words joined by literal separators; a word is one letter over {A,b} or a braced group '{' + n symbolic characters
    over GROUP_SIGMA + '}' (letters, an escape, an accent character, a comma: special characters and plain braced words
    with an escape in the middle)"""
    cs = []
    for piece in tmpl:
        if piece[0] == "w":
            cs.append(eng.sym_char(f"c{len(cs)}", "Ab"))
        elif piece[0] == "g":
            cs.append(eng.sym_char(f"c{len(cs)}", "{"))
            for _ in range(piece[1]):
                cs.append(eng.sym_char(f"c{len(cs)}", GROUP_SIGMA))
            cs.append(eng.sym_char(f"c{len(cs)}", "}"))
        else:
            for ch in piece[1]:
                cs.append(eng.sym_char(f"c{len(cs)}", ch))
    return mk(cs), None


def task_fn(L, sigma, prefix="", tmpl=None):
    eng = Engine()
    eng.interpret_also(O.oracle, O.tokenize)
    rec = Recorder(eng)
    s, g0 = sym_input(eng, L, sigma, prefix) if tmpl is None else tmpl_input(eng, tmpl)
    worlds = eng.run(drv, [s], guard=g0)
    E = eng.I.models.eq_simple
    nval = 0
    for W in worlds:
        rp = lambda m: replay(eng.model_str(m, s))
        if W.exc is not None:
            rec.require(W, True, "no-other-exception", rp)
            continue
        impl, exp = W.result
        if exp[0] == "unspecified":
            continue
        if impl[0] != exp[0]:
            rec.require(W, True, "validity", rp)
        elif impl[0] == "ok":
            same = b_all(E(a, b) for a, b in zip(impl[1:], exp[1:]))
            rec.require(W, b_not(same), "partition", rp)
            if len(exp[2]) > 0:
                rec.witness("von-nonempty", W)
            if len(exp[4]) > 0:
                rec.witness("jr-nonempty", W)
        else:
            rec.unsat += 1
            rec.obligations += 1
            rec.witness("invalid-name", W)
        if nval < 20:
            ok, m = eng.query(W, True)
            if ok:
                inp = eng.model_str(m, s)
                got = eng.model_value(m, impl)
                nat = native_parts(inp)
                if list(got) != list(nat):
                    rec.violations.append({"kind": "nonreproducing", "tag": "engine-vs-native", "input": inp, "engine": got, "native": nat})
                rec.validated += 1
                nval += 1
                if len(rec.samples) < 3:
                    rec.samples.append({"input": inp, "parts": list(nat)})
    return rec.result(L=L, worlds=len(worlds))


def task_recall(L, sigma, prefix=""):
    eng = Engine()
    rec = Recorder(eng)
    s, g0 = sym_input(eng, L, sigma, prefix)
    E = eng.I.models.eq_simple

    def rp(m):
        t = eng.model_str(m, s)
        try:
            r = drv_recall(t)
        except Exception as e:  # noqa
            from pysym.harness import guard_repo_exception
            guard_repo_exception(e)
            return {"input": t, "observed": f"raised {type(e).__name__}: {e}", "expected": "parts"}
        if r is None or [list(x) for x in r[0]] == [list(x) for x in r[1]]:
            return None
        return {"input": t, "observed": {"first call": r[0], "second call after editing the first result": r[1]}, "expected": "the same parts"}
    worlds = eng.run(drv_recall, [s], guard=g0)
    for W in worlds:
        if W.exc is not None:
            rec.require(W, True, "no-other-exception", rp)
            continue
        if W.result is None:
            continue
        keep, again = W.result
        rec.require(W, b_not(E(list(keep), list(again))), "calls-are-independent", rp)
    return rec.result(L=L, worlds=len(worlds))


def task_mw(L, sigma, prefix=""):
    eng = Engine()
    eng.interpret_also(O.oracle, O.tokenize)
    rec = Recorder(eng)
    s, g0 = sym_input(eng, L, sigma, prefix)
    worlds = eng.run(drv_mw, [s], guard=g0)
    E = eng.I.models.eq_simple
    for W in worlds:
        rp = lambda m: replay_mw(eng.model_str(m, s))
        if W.exc is not None:
            rec.require(W, True, "middleware-no-exception", rp)
            continue
        entry, blocks, exp = W.result
        if exp[0] == "unspecified":
            continue
        if len(blocks) != 1:
            rec.require(W, True, "middleware-block-count", rp)
            continue
        b = blocks[0]
        if exp[0] == "invalid":
            good = (isinstance(b, MiddlewareErrorBlock) and b.ignore_error_block is entry
                    and isinstance(b.error, N.InvalidNameError) and isinstance(entry.fields[1].value, list)
                    and len(entry.fields[1].value) == 2 and entry.fields[0].value == [FIRST] and entry.fields[2].value == [FIRST])
            if good:
                good = E(entry.fields[1].value, [FIRST, s])
            rec.require(W, b_not(good), "middleware-error-block", rp)
            rec.witness("middleware-error-block", W)
        else:
            v = entry.fields[1].value
            good = (b is entry and isinstance(v, list) and len(v) == 2 and isinstance(v[0], N.NameParts) and isinstance(v[1], N.NameParts)
                    and [v[0].first, v[0].von, v[0].last, v[0].jr] == [["Aa"], [], ["Bb"], []] and third_ok(entry))
            if good:
                good = b_all(E(a, c) for a, c in zip([v[1].first, v[1].von, v[1].last, v[1].jr], exp[1:]))
            rec.require(W, b_not(good), "middleware-parts", rp)
    return rec.result(L=L, worlds=len(worlds))


def conformance():
    sys.path.insert(0, os.environ.get("VERIF_REPO", "/repo"))
    from tests.middleware_tests import test_names as T
    n = bad = 0
    eng = Engine()
    for name, exp in T.REGULAR_NAME_PARTS_PARSING_TEST_CASES:
        r = O.oracle(name)
        n += 1
        if r[0] == "unspecified":
            continue
        if r[0] != "ok" or dict(first=r[1], von=r[2], last=r[3], jr=r[4]) != exp:
            bad += 1
            print("oracle disagrees with the repository corpus on", repr(name), r, exp)
        ws = eng.run(N.parse_single_name_into_parts, [name])
        p = ws[0].result
        if len(ws) != 1 or ws[0].exc is not None or dict(first=p.first, von=p.von, last=p.last, jr=p.jr) != exp:
            bad += 1
            print("engine (concrete mode) disagrees with the corpus on", repr(name))
    return n, bad


def main():
    chk = Check("C13", __doc__)
    LP, LB, LM = (8, 6, 5) if chk.tier == "quick" else (10, 8, 7)
    chk.bounds = {"partition alphabet": SIGMA_PART, "partition alphabet: all names of length": f"0..{LP}",
                  "brace/escape alphabet": SIGMA_BRACE, "brace/escape alphabet: all names of length": f"0..{LB}",
                  "middleware level (brace alphabet): length": f"0..{LM}"}
    chk.assumptions = [
        "characters outside the two alphabets and longer names are outside the claim",
        "names the oracle marks 'unspecified' are skipped: special characters nested at depth >= 2, escapes or braces inside a special character, backslash-whitespace inside braces (the statement does not fix their case)",
        "strict mode only (strict=True, the middleware's mode)",
        "oracle = checks/names_oracle.py, validated against the 149 BibTeX-derived cases of tests/middleware_tests/test_names.py on every run",
    ]
    chk.expected_vacuity = ["von-nonempty", "jr-nonempty", "invalid-name", "middleware-error-block", "instance-reused"]
    n, bad = conformance()
    chk.conformance = n
    if bad:
        sys.exit(2)

    def spread(kind, fn, L, top, sigma):
        if L >= top - 1 and L >= 2:
            for a in sigma:
                chk.add_task(f"{kind}-L{L}-{a!r}", fn, L=L, sigma=sigma, prefix=a)
        else:
            chk.add_task(f"{kind}-L{L}", fn, L=L, sigma=sigma)
    for L in range(LP, -1, -1):
        spread("part", task_fn, L, LP, SIGMA_PART)
    for L in range(LB, -1, -1):
        spread("brace", task_fn, L, LB, SIGMA_BRACE)
    for L in range(LM, -1, -1):
        spread("mw", task_mw, L, LM, SIGMA_BRACE)
    for L in range(5, 0, -1):
        chk.add_task(f"recall-L{L}", task_recall, L=L, sigma=SIGMA_PART)
    chk.bounds["one instance, two libraries"] = "SplitNameParts on two libraries in a row (author and editor fields), names of length 1..3 each (3+3 at thorough only) over 'Ab ,{}'"
    for L1, L2 in ((3, 2), (2, 3), (1, 3), (2, 2)) + (((3, 3),) if chk.tier == "thorough" else ()):
        chk.add_task(f"reuse-{L1}+{L2}", task_reuse, L1=L1, L2=L2)
    # word-structured names with one braced group (2-3 words, the group in every position, ' ' and ', ' separators)
    GL = 4 if chk.tier == "quick" else 5
    chk.bounds["braced-word family"] = f"2..3 words joined by ' ' or ', ', one of them '{{' + 1..{GL} characters over {GROUP_SIGMA!r} + '}}' (optionally followed by a letter), the others one letter over {{A,b}}"
    import itertools
    for nw in (2, 3):
        for gpos in range(nw):
            for seps in itertools.product((" ", ", "), repeat=nw - 1):
                for gl in range(GL, 0, -1):
                    for tail in (False, True):
                        tm = []
                        for i in range(nw):
                            if i:
                                tm.append(("s", seps[i - 1]))
                            if i == gpos:
                                tm.append(("g", gl))
                                if tail:
                                    tm.append(("w",))
                            else:
                                tm.append(("w",))
                        nm = f"group-w{nw}-p{gpos}-" + "".join("s" if x == " " else "c" for x in seps) + f"-g{gl}" + ("t" if tail else "")
                        chk.add_task(nm, task_fn, L=0, sigma=None, tmpl=tm)
    chk.run()


if __name__ == "__main__":
    main()
