"""C03 — block raw texts tile the source without loss or overlap; line numbers are true.

Encoded: Splitter (all methods) through the regex model, Library.add/_add_to_dicts/_cast_to_duplicate,
model constructors.  Symbolic: the whole text (garbage over the splitter alphabet) and garbage
between / after concrete well-formed blocks.
Obligations per final world: every raw is a contiguous run of input characters; runs are in
block order and disjoint; every uncovered input character is whitespace; block.start_line equals
the number of newlines before the raw; a field whose key and '=' share a line reports that line.
"""
import sys
import z3

from pysym.engine import Engine
from pysym.values import *  # noqa
from pysym.harness import Check, Recorder
from checks.splitcommon import *  # noqa

from bibtexparser.splitter import Splitter
from bibtexparser.model import Entry, ParsingFailedBlock, DuplicateBlockKeyBlock, DuplicateFieldKeyBlock


SIGMA_WS = '@{},=a \n\r\x0c\t'


def drv(text):
    return Splitter(text).split()


def lines_of(lib):
    out = []
    for b in lib.blocks:
        inner = getattr(b, "ignore_error_block", None)
        b = b if inner is None else inner
        out.append([b.start_line] + ([f.start_line for f in b.fields] if isinstance(b, Entry) else []))
    return out


def drv_stack(text):
    import bibtexparser
    return lines_of(Splitter(text).split()), lines_of(bibtexparser.parse_string(text))


def task_stack(parts, label):
    """the lines the splitter recorded are the lines parse_string (default stack) returns: no middleware of the default
    stack re-creates a block or field without its line"""
    eng = Engine()
    rec = Recorder(eng)
    text, pos, holes = sym_text(eng, parts)
    E = eng.I.models.eq_simple
    worlds = eng.run(drv_stack, [text])

    def rp(m):
        import logging
        logging.disable(logging.CRITICAL)
        t = eng.model_str(m, text)
        a, b = drv_stack(t)
        if a == b:
            return None
        return {"input": t, "observed": {"start lines after parse_string": b}, "expected": {"start lines recorded by the splitter": a}}
    for W in worlds:
        if W.exc is not None:
            rec.require(W, True, "no-exception", lambda m: replay(eng.model_str(m, text)))
            continue
        a, b = W.result
        same = len(a) == len(b) and all(len(x) == len(y) for x, y in zip(a, b)) and E(a, b)
        rec.require(W, b_not(same), "default-stack-keeps-lines", rp)
        if any(len(x) > 2 for x in a):
            rec.witness("stack-entry-with-fields", W)
    return rec.result(worlds=len(worlds), label=label)


def native_check(text):
    """plain-Python oracle used for replay: returns None if the property holds on `text`"""
    import logging
    logging.disable(logging.CRITICAL)
    try:
        lib = Splitter(text).split()
    except Exception as e:  # noqa
        from pysym.harness import guard_repo_exception
        guard_repo_exception(e)
        return f"raised {type(e).__name__}: {e}"
    cur = 0
    for i, b in enumerate(lib.blocks):
        raw = b.raw
        if not isinstance(raw, str):
            return f"block {i} raw is not a string"
        if raw == "":
            continue
        # earliest occurrence at/after cur such that the gap is whitespace
        a = text.find(raw, cur)
        if a < 0 or text[cur:a].strip() != "":
            return f"block {i} ({type(b).__name__}) raw {raw!r} does not continue the tiling at offset {cur} (gap {text[cur:a] if a >= 0 else None!r})"
        if b.start_line != text[:a].count("\n"):
            return f"block {i} ({type(b).__name__}) raw {raw!r} starts on line {text[:a].count(chr(10))} but start_line={b.start_line}"
        ent = b if isinstance(b, Entry) else getattr(b, "ignore_error_block", None)
        if isinstance(ent, Entry):
            fcur = a
            for f in ent.fields:
                if not f.key:
                    continue
                ka = text.find(f.key, fcur)
                if ka < 0:
                    continue
                e = ka + len(f.key)
                while e < len(text) and text[e].isspace():
                    e += 1
                if e < len(text) and text[e] == "=" and "\n" not in text[ka:e]:
                    if f.start_line != text[:ka].count("\n"):
                        return f"field {f.key!r} of block {i} is on line {text[:ka].count(chr(10))} but start_line={f.start_line}"
                fcur = e
        cur = a + len(raw)
    if text[cur:].strip() != "":
        return f"input tail {text[cur:]!r} is not covered by any raw"
    return None


def replay(text):
    r = native_check(text)
    if r is None:
        return None
    return {"input": text, "observed": r, "expected": "raw texts tile the input; true line numbers"}


def task(parts, label):
    eng = Engine()
    rec = Recorder(eng)
    text, pos, holes = sym_text(eng, parts)
    cs = chars(text)
    n = len(cs)
    worlds = eng.run(drv, [text])
    nval = 0
    for W in worlds:
        rp = lambda m: replay(eng.model_str(m, text))
        if W.exc is not None:
            rec.require(W, True, "no-exception", rp)
            continue
        blocks = W.result.blocks
        cur = 0
        conds = []
        structural = True
        for b in blocks:
            sp = span_of(b.raw, pos)
            if sp is False:
                structural = False
                break
            if sp is None:
                continue
            a, e = sp
            if a < cur:
                structural = False
                break
            conds.append(b_all(is_space(c) for c in cs[cur:a]))
            if not isinstance(b.start_line, int):
                structural = False
                break
            conds.append(count_nl_eq(cs[:a], b.start_line))
            cur = e
            ent = b if isinstance(b, Entry) else getattr(b, "_ignore_error_block", None)
            if isinstance(ent, Entry):
                for f in ent.fields:
                    ks = span_of(f.key, pos)
                    if not ks:
                        continue
                    ka, kb = ks
                    for eq in range(kb, n):
                        c_eq = b_all([is_space(c) for c in cs[kb:eq]] + [ch_eq(cs[eq], "=")] +
                                     [b_not(is_nl(c)) for c in cs[ka:eq]])
                        if c_eq is False:
                            continue
                        right = count_nl_eq(cs[:ka], f.start_line) if isinstance(f.start_line, int) else False
                        conds.append(b_or(b_not(c_eq), right))
        if not structural:
            rec.require(W, True, "raw-is-run-of-input-in-order", rp)
            continue
        conds.append(b_all(is_space(c) for c in cs[cur:]))
        good = b_all(conds)
        rec.require(W, b_not(good), "tiling-and-lines", rp)
        if any(isinstance(b, ParsingFailedBlock) for b in blocks):
            rec.witness("failed-block-present", W)
        if len(blocks) >= 2:
            rec.witness("two-blocks", W)
        if nval < 10:
            ok, m = eng.query(W, True)
            if ok:
                inp = eng.model_str(m, text)
                import logging
                logging.disable(logging.CRITICAL)
                nat = [(type(b).__name__, b.raw, b.start_line) for b in Splitter(inp).split().blocks]
                got = [(type(b).__name__, eng.model_value(m, b.raw), b.start_line) for b in blocks]
                if nat != got:
                    rec.violations.append({"kind": "nonreproducing", "tag": "engine-vs-native", "input": inp, "engine": got, "native": nat})
                rec.validated += 1
                nval += 1
                if len(rec.samples) < 2:
                    rec.samples.append({"input": inp, "blocks": nat})
    return rec.result(label=label, worlds=len(worlds))


BLOCKS = {
    "entry": "@a{k,\n t = {x},\n u = \"y\"\n}",
    "keyonly": "@a{k}",
    "string": "@string{s = \"v\"}",
    "comment": "@comment{c}",
    "preamble": "@preamble{p}",
    "free": "free text",
}


INSIDE = {
    "comment": ("@comment{", "}\n@a{k}"),
    "preamble": ("@preamble{", "}"),
    "string": ("@string{s = ", "}\n"),
    "field": ("@a{k,\n t = ", "}\n@b{j}"),
    "braced": ("@a{k, t = {", "},\n u = 1}"),
    "quoted": ("@a{k, t = \"", "\", u = 1}"),
    "key": ("@a{", ",\n t = 1}"),
    # between the tokens of a block head / a field (a line break there must not move the block's or the field's line)
    "string-key": ("@string{", "s = {v}}\n@a{k}"),
    "string-eq": ("@string{s", "= {v}}\n"),
    "after-key": ("@a{k", ", t = 1}\n"),
    "field-key": ("@a{k,", "t = 1,\n u = 2}"),
    "field-eq": ("@a{k, t", "= 1}\n@b{j}"),
}


def main():
    chk = Check("C03", __doc__)
    LG, LT = (6, 3) if chk.tier == "quick" else (8, 5)
    LI = 4 if chk.tier == "quick" else 6
    chk.bounds = {"alphabet": SIGMA_S, "pure garbage: every text of length": f"0..{LG}",
                  "templates": f"B1 + X + B2 and B1 + X for B1,B2 in {sorted(BLOCKS)} (+ newline variants), X every text of length 0..{LT}"}
    chk.bounds["inside bodies"] = f"X of length 1..{LI} inside @comment / @preamble / @string bodies, field values (bare, braced, quoted) and the key position"
    chk.assumptions = ["characters outside the alphabet are outside the claim (the alphabet has one representative per character class of the mark regex: each mark character, backslash, '@', a word character, blank, newline, '#')",
                       "CR, tab and form feed occur in the separate whitespace family (shorter texts); other Unicode whitespace is outside the claim",
                       "field-line clause: checked for fields with a non-empty key followed by optional whitespace and '='"]
    chk.expected_vacuity = ["failed-block-present", "two-blocks", "stack-entry-with-fields"]
    for L in range(LG, -1, -1):
        if L >= LG - 1 and L >= 2:
            for a in SIGMA_S:
                for b in (SIGMA_S if L == LG and LG >= 7 else [None]):
                    pre = a + (b or "")
                    chk.add_task(f"garbage-L{L}-{pre!r}", task, parts=[("lit", pre), ("sym", L - len(pre), SIGMA_S)], label=f"garbage-L{L}")
        else:
            chk.add_task(f"garbage-L{L}", task, parts=[("sym", L, SIGMA_S)], label=f"garbage-L{L}")
    for n1, b1 in BLOCKS.items():
        for L in range(LT, 0, -1):
            chk.add_task(f"tmpl-{n1}+X{L}", task, parts=[("lit", b1), ("sym", L, SIGMA_S)], label=f"{n1}+X")
            for n2 in ("entry", "string", "comment"):
                chk.add_task(f"tmpl-{n1}+X{L}+{n2}", task, parts=[("lit", b1), ("sym", L, SIGMA_S), ("lit", "\n" + BLOCKS[n2])], label=f"{n1}+X+{n2}")
    for nm, (pre, post) in INSIDE.items():
        for L in range(LI, 0, -1):
            chk.add_task(f"inside-{nm}-X{L}", task, parts=[("lit", pre), ("sym", L, SIGMA_S), ("lit", post)], label=f"inside-{nm}")
    # other whitespace: CR, form feed, tab are whitespace for the tiling clause but are NOT line breaks for start_line
    LW = 4 if chk.tier == "quick" else 5
    chk.bounds["whitespace family"] = f"texts of length 0..{LW} over {SIGMA_WS!r}; B1 + X (+ B2) with X of length 1..2 over it"
    for L in range(LW, -1, -1):
        if L == LW:
            for a in SIGMA_WS:
                chk.add_task(f"ws-garbage-L{L}-{a!r}", task, parts=[("lit", a), ("sym", L - 1, SIGMA_WS)], label="ws-garbage")
        else:
            chk.add_task(f"ws-garbage-L{L}", task, parts=[("sym", L, SIGMA_WS)], label="ws-garbage")
    for n1 in ("entry", "comment", "free"):
        for L in (2, 1):
            chk.add_task(f"ws-tmpl-{n1}+X{L}+string", task, parts=[("lit", BLOCKS[n1]), ("sym", L, SIGMA_WS), ("lit", "\nx\n" + BLOCKS["string"])], label="ws-tmpl")
            chk.add_task(f"ws-tmpl-X{L}+{n1}", task, parts=[("sym", L, SIGMA_WS), ("lit", "y" + "\n" + BLOCKS[n1])], label="ws-tmpl")
    LS = 2 if chk.tier == "quick" else 3
    chk.bounds["after the default parse stack"] = f"'@string{{s = {{v}}}}' + X + an entry with a resolved reference, a braced, a quoted and a concatenated value + X', X/X' every text of length 0..{LS} (one of them empty): block and field lines equal those recorded by the splitter"
    for L in range(LS, -1, -1):
        chk.add_task(f"stack-X{L}-mid", task_stack, parts=[("lit", "@string{s = {v}}"), ("sym", L, SIGMA_S), ("lit", "\n@a{k,\n t = s,\n u = {x}, w = \"y\",\n z = s # {q}\n}")], label="stack")
        if L:
            chk.add_task(f"stack-X{L}-end", task_stack, parts=[("lit", "@string{s = {v}}\n@a{k,\n t = s,\n u = {x}\n}\n@b{j, t = s"), ("sym", L, SIGMA_S)], label="stack")
    chk.run()


if __name__ == "__main__":
    main()
