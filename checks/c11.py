"""C11 — @string references resolve exactly: bare matching identifiers only.

Encoded: parse_string with the default stack (Splitter, Library, ResolveStringReferencesMiddleware,
RemoveEnclosingMiddleware) and, for the 'strings unchanged' clause, Splitter + RemoveEnclosing alone.
Symbolic: every @string key and every identifier used in a field value is a 1-2 character hole
over {a, A, b} (so equal / different / case-different names are solver-chosen); the value shape
(bare, braced, quoted, concatenation, number) and the position of the definitions (before, after,
both, duplicated, none) are enumerated as templates.
"""
import sys
import itertools

from pysym.engine import Engine
from pysym.values import *  # noqa
from pysym.harness import Check, Recorder

import bibtexparser
from bibtexparser import model as M
from bibtexparser.splitter import Splitter
from bibtexparser.middlewares.enclosing import RemoveEnclosingMiddleware
from bibtexparser.middlewares.interpolate import ResolveStringReferencesMiddleware

KS = "aAb-"
FSEP = [" = "]      # text between a field key and its value (a task may put the value on the next line)
KSX = [KS]          # alphabet of the name holes (a task may use letters that spell month abbreviations)
SVALS = ["{v1}", "\"v2\" # x", "w3", "{e=f=g}"]      # the last one holds the separator character of the block head
SHAPES = ("bare", "braced", "quoted", "concat", "number")


def drv(text, snames, fields, stack=None):
    lib = bibtexparser.parse_string(text) if stack is None else bibtexparser.parse_string(text, parse_stack=stack)
    lib0 = RemoveEnclosingMiddleware(True).transform(Splitter(text).split())
    # oracle: which field resolves to which string (first definition wins)
    exp = []
    for entry_fields in fields:
        row = []
        for fkey, shape, name in entry_fields:
            hit = -1
            if shape == "bare":
                i = 0
                for s in snames:
                    if hit < 0 and s == name:
                        hit = i
                    i += 1
            row.append(hit)
        exp.append(row)
    return lib, lib0, exp


def drv_two(text1, text2, snames, fields):
    """two documents parsed one after the other in the same process: the second must be resolved on its own"""
    bibtexparser.parse_string(text1)
    return drv(text2, snames, fields)


def drv_two_reuse(text1, text2, snames, fields):
    """the SAME middleware instances (the default stack's classes, built once by the caller) used for two documents"""
    stack = [ResolveStringReferencesMiddleware(True), RemoveEnclosingMiddleware(True)]
    bibtexparser.parse_string(text1, parse_stack=stack)
    return drv(text2, snames, fields, stack)


NL = ["\n"]      # line ending used by build(); tasks may switch it to CRLF
KEYHOLE = [False]   # tasks may switch this on: the (first) entry's citation key is a hole over the name alphabet too
EKEYS = []          # the citation key terms of the document built last
HW = [""]        # blanks / tabs between '@string' and '{' (tasks may switch it)


def build(eng, n_before, n_after, shapes, kl, second=None, pfx="t"):
    cs = []

    def lit(s):
        for ch in s:
            cs.append(eng.sym_char(f"{pfx}{len(cs)}", ch))

    def hole():
        a = len(cs)
        for _ in range(kl):
            cs.append(eng.sym_char(f"{pfx}{len(cs)}", KSX[0]))
        return mk(cs[a:])

    snames = []
    order = []   # block order: ('s', i) / ('e',)

    def sdef(i):
        lit("@string" + HW[0] + "{")
        snames.append(hole())
        lit(" = " + SVALS[i % len(SVALS)] + "}" + NL[0])
        order.append(("s", len(snames) - 1))

    for i in range(n_before):
        sdef(i)
    all_fields = []
    all_own = []
    entry_specs = [("key", "f", shapes)] + ([("kez", "g", second)] if second else [])
    EKEYS[:] = []
    for ekey, fpre, shapes_ in entry_specs:
      if KEYHOLE[0] and not EKEYS:
          lit("@x{")
          EKEYS.append(hole())       # may be spelled exactly like a defined @string: it is still the key, not a reference
      else:
          lit("@x{" + ekey)
          EKEYS.append(ekey)
      fields = []
      own = []
      for j, sh in enumerate(shapes_):
        lit(f", {fpre}{j}" + FSEP[0])
        if sh == "bare":
            nm = hole(); own.append(nm)
        elif sh == "braced":
            lit("{"); nm = hole(); lit("}"); own.append(nm)
        elif sh == "quoted":
            lit('"'); nm = hole(); lit('"'); own.append(nm)
        elif sh == "concat":
            nm = hole(); lit(" # "); nm2 = hole(); own.append(mk(chars(nm) + tuple(" # ") + chars(nm2)))
        else:
            lit("12"); nm = "12"; own.append("12")
        fields.append((f"{fpre}{j}", sh, nm))
      lit(NL[0] + "}" + NL[0])
      order.append(("e", len(all_fields)))
      all_fields.append(fields)
      all_own.append(own)
    fields, own = all_fields, all_own
    for i in range(n_after):
        sdef(n_before + i)
    return mk(cs), snames, fields, own, order


def verdict(lib, lib0, exp, snames, fields, own, order, E, ekeys=()):
    conds = []
    blocks = lib.blocks
    if len(blocks) != len(order) or len(lib0.blocks) != len(order):
        return [False]
    # string blocks (or duplicate wrappers) unchanged w.r.t. split + enclosure removal
    first_of = {}
    for pos, o in enumerate(order):
        b, b0 = blocks[pos], lib0.blocks[pos]
        if o[0] == "s":
            if type(b) is not type(b0):
                return [False]
            sb = b if isinstance(b, M.String) else getattr(b, "ignore_error_block", None)
            sb0 = b0 if isinstance(b0, M.String) else getattr(b0, "ignore_error_block", None)
            if not isinstance(sb, M.String) or not isinstance(sb0, M.String):
                return [False]
            if isinstance(b, M.String):
                conds.append(b_all([E(sb.key, sb0.key), E(sb.value, sb0.value), E(sb.raw, sb0.raw), E(sb.key, snames[o[1]])]))
            first_of[o[1]] = (b, sb)
        else:
            e = b
            ei = o[1]
            if not isinstance(e, M.Entry) or len(e.fields) != len(fields[ei]):
                return [False]
            if len(ekeys) > ei:
                conds.append(E(e.key, ekeys[ei]))
                conds.append(E(e.entry_type, "x"))
            resolved = []
            for f, (fkey, shape, name), hit, mine in zip(e.fields, fields[ei], exp[ei], own[ei]):
                conds.append(E(f.key, fkey))
                if hit >= 0:
                    blk, sb = first_of_lookup(lib, order, hit)
                    if not isinstance(blk, M.String):
                        return [False]       # the first definition of a key is always live
                    conds.append(E(f.value, blk.value))
                    resolved.append(fkey)
                else:
                    conds.append(E(f.value, mine))
            meta = e.parser_metadata.get("ResolveStringReferences")
            if resolved:
                conds.append(isinstance(meta, list) and E(meta, resolved))
            else:
                conds.append(meta is None)
    return conds


def first_of_lookup(lib, order, sidx):
    pos = [p for p, o in enumerate(order) if o == ("s", sidx)][0]
    b = lib.blocks[pos]
    return b, b


def native(text, snames, fields, own, order, reuse_after=None, ekeys=()):
    import logging
    logging.disable(logging.CRITICAL)
    lib, lib0, exp = drv(text, snames, fields) if reuse_after is None else drv_two_reuse(reuse_after, text, snames, fields)
    conds = verdict(lib, lib0, exp, snames, fields, own, order, lambda a, b: a == b, ekeys)
    return all(bool(c) for c in conds), exp, [(f.key, f.value) for b in lib.blocks if isinstance(b, M.Entry) for f in b.fields]


def task(n_before, n_after, shapes, kl, label, second=None, earlier=None, crlf=False, hw="", reuse=False, keyhole=False, fsep=" = ", ksx=KS):
    KEYHOLE[0] = keyhole
    FSEP[0] = fsep
    KSX[0] = ksx
    NL[0] = "\r\n" if crlf else "\n"
    HW[0] = hw
    eng = Engine()
    rec = Recorder(eng)
    text0 = None
    if earlier is not None:
        text0 = build(eng, earlier[0], earlier[1], ("bare",), 1, None, pfx="p")[0]
    text, snames, fields, own, order = build(eng, n_before, n_after, shapes, kl, second)
    ekeys = list(EKEYS)
    E = eng.I.models.eq_simple
    worlds = eng.run(drv, [text, snames, fields]) if text0 is None else eng.run(drv_two_reuse if reuse else drv_two, [text0, text, snames, fields])

    def rp(m):
        mv = lambda x: eng.model_value(m, x)
        t = eng.model_str(m, text)
        try:
            if text0 is not None and not reuse:
                import logging
                logging.disable(logging.CRITICAL)
                bibtexparser.parse_string(eng.model_str(m, text0))
            ok, exp, got = native(t, mv(snames), [[tuple(mv(list(f))) for f in ef] for ef in fields], mv(own), order,
                                  eng.model_str(m, text0) if reuse else None, mv(ekeys))
        except Exception as e:  # noqa
            from pysym.harness import guard_repo_exception
            guard_repo_exception(e)
            return {"input": t, "observed": f"raised {type(e).__name__}: {e}", "expected": "library"}
        if ok:
            return None
        return {"input": t, "observed": got, "expected": f"resolution pattern {exp} (index of the first matching @string, -1 = keep own text)"}

    for W in worlds:
        if W.exc is not None:
            rec.require(W, True, "no-exception", rp)
            continue
        lib, lib0, exp = W.result
        conds = verdict(lib, lib0, exp, snames, fields, own, order, E, ekeys)
        rec.require(W, b_not(b_all(conds)), "resolution", rp)
        flat = [h for row in exp for h in row]
        flatf = [f for ef in fields for f in ef]
        if any(h >= 0 for h in flat):
            rec.witness("reference-resolved", W)
        if any(h < 0 and f[1] == "bare" for h, f in zip(flat, flatf)):
            rec.witness("undefined-name-kept", W)
        if len(rec.samples) < 1 and any(h >= 0 for h in flat):
            ok, m = eng.query(W, True)
            if ok:
                rec.samples.append({"document": eng.model_str(m, text), "resolution": exp})
                rec.validated += 1
    return rec.result(label=label, worlds=len(worlds))


def main():
    chk = Check("C11", __doc__)
    chk.bounds = {"names": "every @string key / referenced identifier: 1 char (all templates) and 2 chars (single-field templates) over {a,A,b,-} (so non-identifier-like names such as 'a-' occur)",
                  "templates": "0..2 definitions before x 0..1 after x 1..2 fields x value shapes {bare, braced, quoted, concat, number}; plus two-entry documents (metadata is per entry); CRLF line ends; blanks / a tab between '@string' and '{'"}
    chk.assumptions = ["@string values are the fixed literals {v1}, \"v2\" # x, w3, {e=f=g}", "names longer than 2 characters are outside the claim"]
    chk.expected_vacuity = ["reference-resolved", "undefined-name-kept"]
    for nb, na in itertools.product((0, 1, 2), (0, 1)):
        for nf in (1, 2):
            for shapes in itertools.product(SHAPES, repeat=nf):
                if nf == 2 and chk.tier == "quick" and shapes[0] != "bare" and shapes[1] != "bare":
                    continue
                name = f"b{nb}a{na}-" + "+".join(shapes)
                chk.add_task(name + "-k1", task, n_before=nb, n_after=na, shapes=shapes, kl=1, label=name)
                if nf == 1 or chk.tier == "thorough":
                    chk.add_task(name + "-k2", task, n_before=nb, n_after=na, shapes=shapes, kl=2, label=name)
    # CRLF line endings (the last field is directly followed by the line break)
    for nb, na in ((1, 0), (0, 1)):
        for shapes in (("bare",), ("braced", "bare"), ("number",)):
            name = f"crlf-b{nb}a{na}-" + "+".join(shapes)
            chk.add_task(name, task, n_before=nb, n_after=na, shapes=shapes, kl=1, label=name, crlf=True)
    # blanks / a tab between '@string' and '{' (legal in the dialect grammar; the definition must still count)
    for nb, na in ((1, 0), (0, 1), (2, 0)):
        for shapes in (("bare",), ("concat",), ("braced", "bare")):
            for hw in (" ", "\t", "  "):
                name = f"hws{len(hw)}{'t' if hw == chr(9) else ''}-b{nb}a{na}-" + "+".join(shapes)
                chk.add_task(name, task, n_before=nb, n_after=na, shapes=shapes, kl=1, label=name, hw=hw)
    # the value on the line after the '=' (legal layout; what a line-based pre-filter would miss)
    for nb, na in ((1, 0), (0, 1)):
        for shapes in (("bare",), ("braced", "bare"), ("concat",), ("bare", "bare")):
            name = f"fsepnl-b{nb}a{na}-" + "+".join(shapes)
            chk.add_task(name, task, n_before=nb, n_after=na, shapes=shapes, kl=1, label=name, fsep=" =\n    ")
    # names of three letters over {m,a,y,D,E,c}: among them the month abbreviations 'may' and (other case) 'DEc'
    chk.bounds["month-like names"] = "names of 3 characters over {m,a,y,D,E,c} in single-field templates (a @string may be called 'may')"
    for nb, na, shapes in ((1, 0, ("bare",)), (0, 1, ("bare",)), (1, 0, ("concat",)), (1, 0, ("braced",))):
        name = f"months-b{nb}a{na}-" + "+".join(shapes)
        chk.add_task(name, task, n_before=nb, n_after=na, shapes=shapes, kl=3, label=name, ksx="mayDEc")
    # a document parsed after another one in the same process (no state may survive between calls)
    for nb, na in ((1, 0), (0, 1), (0, 0), (2, 0)):
        for enb, ena in ((1, 0), (0, 1)):
            name = f"after-b{enb}a{ena}-then-b{nb}a{na}"
            chk.add_task(name, task, n_before=nb, n_after=na, shapes=("bare",), kl=1, label=name, earlier=(enb, ena))
    # the citation key spelled like a @string name
    for nb, na in ((1, 0), (0, 1), (2, 0)):
        for shapes in (("bare",), ("braced",), ("bare", "bare")):
            name = f"keyhole-b{nb}a{na}-" + "+".join(shapes)
            chk.add_task(name, task, n_before=nb, n_after=na, shapes=shapes, kl=1, label=name, keyhole=True)
    # ... and with the very same middleware instances used for both documents
    for nb, na in ((1, 0), (0, 1), (0, 0), (2, 0)):
        for enb, ena in ((1, 0), (0, 1), (2, 0)):
            name = f"reuse-b{enb}a{ena}-then-b{nb}a{na}"
            chk.add_task(name, task, n_before=nb, n_after=na, shapes=("bare",), kl=1, label=name, earlier=(enb, ena), reuse=True)
    # two entries: the recorded resolved keys are per entry
    for nb, na in ((1, 0), (0, 1), (2, 0)):
        for shapes in (("bare",), ("bare", "bare"), ("braced",)):
            for second in (("bare",), ("braced",), ("number", "bare")):
                name = f"two-b{nb}a{na}-" + "+".join(shapes) + "--" + "+".join(second)
                chk.add_task(name, task, n_before=nb, n_after=na, shapes=shapes, kl=1, label=name, second=second)
    chk.run()


if __name__ == "__main__":
    main()
