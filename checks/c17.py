"""C17 — field sorting and key normalisation only permute/merge fields; values intact.

Encoded: SortFieldsAlphabeticallyMiddleware.transform_entry, SortFieldsCustomMiddleware.__init__ (order
validation) / transform_entry, NormalizeFieldKeys.transform_entry, BlockMiddleware.transform/transform_block,
Library, Entry/Field accessors; `sorted` is the engine's stable insertion-sort model calling the
interpreted key functions.
Symbolic: every field key (1-2 chars over {a,A,b,B}) and every key of the custom order.
"""
import sys
import itertools
import z3

from pysym.engine import Engine
from pysym.values import *  # noqa
from pysym.harness import Check, Recorder

from bibtexparser.middlewares.sorting_entry_fields import SortFieldsAlphabeticallyMiddleware, SortFieldsCustomMiddleware
from bibtexparser.middlewares.fieldkeys import NormalizeFieldKeys
from bibtexparser.model import Entry, Field, String
from bibtexparser.library import Library

KS = "aAbB\u017f"     # U+017F: lower() leaves it, casefold() maps it to "s"


def mk_lib(keys):
    # start lines DEcrease along the list (fields moved / inserted after parsing): "order" in the statement is the
    # order of entry.fields, not of the recorded line numbers
    fields = []
    i = 0
    for k in keys:
        fields.append(Field(k, "v" + str(i), len(keys) - i))
        i += 1
    e = Entry("article", "thekey", fields)
    s = String("s", "x")
    return e, s, Library([e, s])


def snapshot(e):
    return [(f.key, f.value) for f in e.fields]


def drv_alpha(keys):
    e, s, lib = mk_lib(keys)
    out = SortFieldsAlphabeticallyMiddleware(True).transform(lib)
    first = snapshot(e)
    out2 = SortFieldsAlphabeticallyMiddleware(True).transform(out)
    return first, snapshot(e), out.blocks, out2.blocks, e, s


def drv_custom(keys, order, cs):
    try:
        mw = SortFieldsCustomMiddleware(order=tuple(order), case_sensitive=cs, allow_inplace_modification=True)
    except ValueError:
        return None
    e, s, lib = mk_lib(keys)
    out = mw.transform(lib)
    first = snapshot(e)
    out2 = mw.transform(out)
    return first, snapshot(e), out.blocks, out2.blocks, e, s


def drv_seq(keys, seq):
    """the middlewares applied one after the other on the same entry (in place): every application must do its job whatever
    ran before; returns the snapshot after each step"""
    e, s, lib = mk_lib(keys)
    snaps = []
    for name in seq:
        if name == "alpha":
            mw = SortFieldsAlphabeticallyMiddleware(True)
        elif name == "custom":
            mw = SortFieldsCustomMiddleware(order=("b", "a"), case_sensitive=True, allow_inplace_modification=True)
        else:
            mw = NormalizeFieldKeys(True)
        lib = mw.transform(lib)
        snaps.append(snapshot(e))
    return snaps, e, s, lib.blocks


def mk_mw(kind, order=None, cs=None, inplace=True):
    if kind == "alpha":
        return SortFieldsAlphabeticallyMiddleware(inplace)
    if kind == "norm":
        return NormalizeFieldKeys(inplace)
    return SortFieldsCustomMiddleware(order=tuple(order), case_sensitive=cs, allow_inplace_modification=inplace)


def drv_copy(keys, kind, order, cs):
    """copy mode (allow_inplace_modification=False): the returned library holds what the in-place mode leaves in the
    input - same entry type, key, fields - and the input library is as it was"""
    e, s, lib = mk_lib(keys)
    before = [e.entry_type, e.key, snapshot(e), s.key, s.value]
    out = mk_mw(kind, order, cs, False).transform(lib)
    after = [e.entry_type, e.key, snapshot(e), s.key, s.value]
    f, fs, flib = mk_lib(keys)
    mk_mw(kind, order, cs, True).transform(flib)
    desc = lambda bl: [(type(b), getattr(b, "entry_type", None), b.key, snapshot(b) if isinstance(b, Entry) else b.value, b.start_line) for b in bl]
    return before, after, desc(out.blocks), desc(flib.blocks), out is not lib and all(x is not y for x in out.blocks for y in lib.blocks)


def drv_reuse(keys, keys2, kind, order, cs):
    """ONE middleware instance: a library of two entries (keys, keys2), then a second library (keys2 alone).  Every entry
    must come out as it does from a fresh instance that sees it alone."""
    mw = mk_mw(kind, order, cs)
    e1, s1, lib1 = mk_lib(keys)
    e2 = Entry("article", "second", [Field(k, "w" + str(i), len(keys2) - i) for i, k in enumerate(keys2)])
    lib1.add(e2)
    mw.transform(lib1)
    e3, s3, lib3 = mk_lib(keys2)
    mw.transform(lib3)
    f1, _, fl1 = mk_lib(keys)
    mk_mw(kind, order, cs).transform(fl1)
    f2, _, fl2 = mk_lib(keys2)
    mk_mw(kind, order, cs).transform(fl2)
    tag = lambda snap_: [(k, v[1:]) for k, v in snap_]
    return snapshot(e1), snapshot(f1), tag(snapshot(e2)), tag(snapshot(e3)), tag(snapshot(f2))


def norm_oracle(keys):
    """lower-case, unique, last value wins, order of first occurrences"""
    res = []     # list of [lowerkey, value]
    i = 0
    for k in keys:
        lk = k.lower()
        hit = -1
        j = 0
        for r in res:
            if hit < 0 and r[0] == lk:
                hit = j
            j += 1
        if hit >= 0:
            res[hit][1] = "v" + str(i)
        else:
            res.append([lk, "v" + str(i)])
        i += 1
    return [(r[0], r[1]) for r in res]


def drv_norm_shared(keys):
    """[f(K0), Field(K1), f]: the SAME Field object sits twice in the entry"""
    f = Field(keys[0], "v0", 3)
    e = Entry("article", "thekey", [f, Field(keys[1], "v1", 2), f])
    NormalizeFieldKeys(True).transform(Library([e]))
    return snapshot(e), norm_oracle([keys[0], keys[1], keys[0]])


def drv_norm(keys):
    e, s, lib = mk_lib(keys)
    out = NormalizeFieldKeys(True).transform(lib)
    first = snapshot(e)
    out2 = NormalizeFieldKeys(True).transform(out)
    return first, snapshot(e), out.blocks, out2.blocks, e, s, norm_oracle(keys)


# ------------------------------------------------------------------ conditions
def lt(models, a, b, or_equal=False):
    return models.lt_values(a, b, or_equal)


def common(res, e_type="article", e_key="thekey"):
    first, second, blocks1, blocks2, e, s = res[:6]
    ok = (len(blocks1) == 2 and len(blocks2) == 2 and blocks1[0] is e and blocks1[1] is s and blocks2[0] is e and blocks2[1] is s
          and e.entry_type == e_type and e.key == e_key and s.key == "s" and s.value == "x")
    return ok


def perm_of(first, n):
    """indices of the original fields in output order (values are the tags v0..)"""
    idx = []
    for k, v in first:
        if not isinstance(v, str) or not v.startswith("v"):
            return None
        idx.append(int(v[1:]))
    if sorted(idx) != list(range(n)):
        return None
    return idx


def native_sorted_ok(first, keys, rank):
    idx = perm_of(first, len(keys))
    if idx is None or [k for k, v in first] != [keys[i] for i in idx]:
        return False
    for p, q in zip(idx, idx[1:]):
        rp, rq = rank(keys[p]), rank(keys[q])
        if rp > rq or (rp == rq and p > q):
            return False
    return True


def replay_sort(keys, order, cs, which):
    import logging
    logging.disable(logging.CRITICAL)
    try:
        res = drv_alpha(keys) if which == "alpha" else drv_custom(keys, order, cs)
    except Exception as ex:  # noqa
        from pysym.harness import guard_repo_exception
        guard_repo_exception(ex)
        return {"input": [keys, order, cs], "observed": f"raised {type(ex).__name__}: {ex}", "expected": "sorted fields"}
    if which == "custom":
        folded = [o if cs else o.lower() for o in order]
        dup = len(set(folded)) != len(folded)
        if (res is None) != dup:
            return {"input": [keys, order, cs], "observed": "ValueError" if res is None else "accepted", "expected": "ValueError iff the order has duplicates after case folding"}
        if res is None:
            return None
        rank = lambda k: (folded.index(k if cs else k.lower()) if (k if cs else k.lower()) in folded else len(folded))
    else:
        rank = lambda k: k
    first, second = res[0], res[1]
    if common(res) and native_sorted_ok(first, keys, rank) and first == second:
        return None
    return {"input": [keys, order, cs], "observed": first, "expected": "stable sort of the fields by " + ("key" if which == "alpha" else "rank in the order")}


def replay_norm(keys):
    import logging
    logging.disable(logging.CRITICAL)
    try:
        res = drv_norm(keys)
    except Exception as ex:  # noqa
        from pysym.harness import guard_repo_exception
        guard_repo_exception(ex)
        return {"input": keys, "observed": f"raised {type(ex).__name__}: {ex}", "expected": "normalised fields"}
    if common(res) and res[0] == res[6] and res[1] == res[6]:
        return None
    return {"input": keys, "observed": res[0], "expected": res[6]}


def sym_keys(eng, lens):
    out = []
    for i, n in enumerate(lens):
        out.append(eng.sym_str(f"k{i}_", n, KS))
    return out


def task_alpha(lens):
    eng = Engine()
    rec = Recorder(eng)
    keys = sym_keys(eng, lens)
    Mo = eng.I.models
    worlds = eng.run(drv_alpha, [keys])
    for W in worlds:
        rp = lambda m: replay_sort(eng.model_value(m, keys), None, None, "alpha")
        if W.exc is not None:
            rec.require(W, True, "no-exception", rp)
            continue
        first, second = W.result[0], W.result[1]
        idx = perm_of(first, len(keys))
        if not common(W.result) or idx is None:
            rec.require(W, True, "permutation", rp)
            continue
        conds = [Mo.eq_simple([k for k, v in first], [keys[i] for i in idx]), Mo.eq_simple(first, second)]
        for p, q in zip(idx, idx[1:]):
            conds.append(lt(Mo, keys[p], keys[q], or_equal=(p < q)))
        rec.require(W, b_not(b_all(conds)), "alphabetical-stable", rp)
        if idx != list(range(len(keys))):
            rec.witness("alpha-reordered", W)
    if worlds:
        ok, m = eng.query(worlds[0], True)
        if ok:
            rec.samples.append({"keys": eng.model_value(m, keys), "sorted": eng.model_value(m, worlds[0].result[0]) if worlds[0].exc is None else None})
            rec.validated += 1
    return rec.result(worlds=len(worlds))


def task_custom(lens, olens, cs):
    eng = Engine()
    rec = Recorder(eng)
    keys = sym_keys(eng, lens)
    order = [eng.sym_str(f"o{i}_", n, KS) for i, n in enumerate(olens)]
    Mo = eng.I.models
    fold = (lambda s: s) if cs else (lambda s: mk([c.map(str.lower) if not isinstance(c, str) else c.lower() for c in chars(s)]))
    worlds = eng.run(drv_custom, [keys, order, cs])
    dup = b_any(Mo.eq_simple(fold(a), fold(b)) for a, b in itertools.combinations(order, 2)) if len(order) > 1 else False
    for W in worlds:
        rp = lambda m: replay_sort(eng.model_value(m, keys), eng.model_value(m, order), cs, "custom")
        if W.exc is not None:
            rec.require(W, True, "no-exception", rp)
            continue
        if W.result is None:
            rec.require(W, b_not(dup), "valueerror-only-on-duplicates", rp)
            rec.witness("order-rejected", W)
            continue
        rec.require(W, dup, "duplicates-rejected", rp)
        first, second = W.result[0], W.result[1]
        idx = perm_of(first, len(keys))
        if not common(W.result) or idx is None:
            rec.require(W, True, "permutation", rp)
            continue
        conds = [Mo.eq_simple([k for k, v in first], [keys[i] for i in idx]), Mo.eq_simple(first, second)]

        def rank(i):
            r = z3.IntVal(len(order))
            for j in range(len(order) - 1, -1, -1):
                r = z3.If(b_z3(Mo.eq_simple(fold(keys[i]), fold(order[j]))), z3.IntVal(j), r)
            return r
        for p, q in zip(idx, idx[1:]):
            conds.append(SBool(rank(p) <= rank(q)) if p < q else SBool(rank(p) < rank(q)))
        rec.require(W, b_not(b_all(conds)), "custom-order-stable", rp)
        if idx != list(range(len(keys))):
            rec.witness("custom-reordered", W)
    return rec.result(worlds=len(worlds))


def swapcase_sym(k):
    return mk([c.map(str.swapcase) if not isinstance(c, str) else c.swapcase() for c in chars(k)])


def task_norm_shared():
    eng = Engine()
    rec = Recorder(eng)
    keys = sym_keys(eng, (1, 1))
    E = eng.I.models.eq_simple
    worlds = eng.run(drv_norm_shared, [keys])

    def rp(m):
        import logging
        logging.disable(logging.CRITICAL)
        ks = eng.model_value(m, keys)
        try:
            got, exp = drv_norm_shared(ks)
        except Exception as ex:  # noqa
            from pysym.harness import guard_repo_exception
            guard_repo_exception(ex)
            return {"input": ks, "observed": f"raised {type(ex).__name__}: {ex}", "expected": "normalised fields"}
        exp = [(k, "v0" if v == "v2" else v) for k, v in exp]
        if got == exp:
            return None
        return {"input": ks, "observed": got, "expected": exp}
    for W in worlds:
        if W.exc is not None:
            rec.require(W, True, "shared-field-no-exception", rp)
            continue
        got, exp = W.result
        exp = [(k, "v0" if v == "v2" else v) for k, v in exp]      # the third occurrence is the first object again (value v0)
        rec.require(W, b_not(E(got, exp)), "shared-field-object", rp)
        rec.witness("shared-field", W)
    return rec.result(worlds=len(worlds))


def task_copy(lens, kind, cs=None):
    eng = Engine()
    rec = Recorder(eng)
    keys = sym_keys(eng, lens)
    order = ("b", "A") if kind == "custom" else None
    E = eng.I.models.eq_simple
    worlds = eng.run(drv_copy, [keys, kind, order, cs])

    def rp(m):
        import logging
        logging.disable(logging.CRITICAL)
        ks = eng.model_value(m, keys)
        try:
            before, after, got, exp, fresh = drv_copy(ks, kind, order, cs)
        except Exception as ex:  # noqa
            from pysym.harness import guard_repo_exception
            guard_repo_exception(ex)
            return {"input": [ks, kind, cs], "observed": f"raised {type(ex).__name__}: {ex}", "expected": "no exception"}
        if before == after and got == exp and fresh:
            return None
        return {"input": [ks, kind, cs], "observed": {"copy mode": str(got), "input after": after, "new objects": fresh},
                "expected": {"as in-place mode": str(exp), "input before": before}}
    for W in worlds:
        if W.exc is not None:
            rec.require(W, True, "copy-no-exception", rp)
            continue
        before, after, got, exp, fresh = W.result
        rec.require(W, b_not(b_all([fresh is True, E(before, after), len(got) == len(exp) and E(got, exp)])), "copy-mode-same-result", rp)
        rec.witness("copy-mode", W)
    return rec.result(worlds=len(worlds))


def task_reuse(lens, kind, cs=None):
    """keys2 = the keys of the first entry with the case of every letter swapped (what a cache keyed without regard to
    case, or by position, would confuse)"""
    eng = Engine()
    rec = Recorder(eng)
    keys = sym_keys(eng, lens)
    keys2 = [swapcase_sym(k) for k in keys]
    order = ("b", "A") if kind == "custom" else None
    E = eng.I.models.eq_simple
    worlds = eng.run(drv_reuse, [keys, keys2, kind, order, cs])

    def rp(m):
        import logging
        logging.disable(logging.CRITICAL)
        ks = eng.model_value(m, keys)
        try:
            a, fa, b, c, fb = drv_reuse(ks, [k.swapcase() for k in ks], kind, order, cs)
        except Exception as ex:  # noqa
            from pysym.harness import guard_repo_exception
            guard_repo_exception(ex)
            return {"input": [ks, kind, cs], "observed": f"raised {type(ex).__name__}: {ex}", "expected": "no exception"}
        if a == fa and b == fb and c == fb:
            return None
        return {"input": [ks, kind, cs], "observed": {"first entry": a, "second entry": b, "second library": c},
                "expected": {"first entry alone, fresh instance": fa, "second entry alone, fresh instance": fb}}
    for W in worlds:
        if W.exc is not None:
            rec.require(W, True, "reuse-no-exception", rp)
            continue
        a, fa, b, c, fb = W.result
        rec.require(W, b_not(b_all([E(a, fa), E(b, fb), E(c, fb)])), "instance-holds-no-state", rp)
        rec.witness("instance-reused", W)
    return rec.result(worlds=len(worlds))


def seq_conds(Mo, snaps, seq):
    conds = []
    for name, snap in zip(seq, snaps):
        ks = [k for k, v in snap]
        if name == "alpha":
            for a, b in zip(ks, ks[1:]):
                conds.append(Mo.lt_values(a, b, True))
        elif name == "custom":
            def rank(k):
                return z3.If(b_z3(Mo.eq_simple(k, "b")), 0, z3.If(b_z3(Mo.eq_simple(k, "a")), 1, 2))
            for a, b in zip(ks, ks[1:]):
                conds.append(SBool(rank(a) <= rank(b)))
        else:
            for i, a in enumerate(ks):
                conds.append(Mo.eq_simple(a, mk([c.map(str.lower) if not isinstance(c, str) else c.lower() for c in chars(a)])))
                for b in ks[:i]:
                    conds.append(b_not(Mo.eq_simple(a, b)))
    return conds


def replay_seq(keys, seq):
    import logging
    logging.disable(logging.CRITICAL)
    try:
        snaps, e, s, blocks = drv_seq(keys, seq)
    except Exception as ex:  # noqa
        from pysym.harness import guard_repo_exception
        guard_repo_exception(ex)
        return {"input": [keys, seq], "observed": f"raised {type(ex).__name__}: {ex}", "expected": "sorted / normalised after every step"}
    for name, snap in zip(seq, snaps):
        ks = [k for k, v in snap]
        rank = {"b": 0, "a": 1}
        ok = (ks == sorted(ks) if name == "alpha" else
              all(rank.get(x, 2) <= rank.get(y, 2) for x, y in zip(ks, ks[1:])) if name == "custom" else
              (all(k == k.lower() for k in ks) and len(set(ks)) == len(ks)))
        if not ok:
            return {"input": [keys, seq], "observed": {"after": name, "fields": snap}, "expected": f"{name} applied regardless of earlier steps"}
    return None


def task_seq(lens, seq):
    eng = Engine()
    rec = Recorder(eng)
    keys = sym_keys(eng, lens)
    Mo = eng.I.models
    worlds = eng.run(drv_seq, [keys, seq])
    for W in worlds:
        rp = lambda m: replay_seq(eng.model_value(m, keys), seq)
        if W.exc is not None:
            rec.require(W, True, "no-exception", rp)
            continue
        snaps, e, s, blocks = W.result
        good = len(blocks) == 2 and blocks[0] is e and blocks[1] is s
        rec.require(W, b_not(b_and(good, b_all(seq_conds(Mo, snaps, seq)))), "every-application-does-its-job", rp)
    return rec.result(worlds=len(worlds))


def task_norm(lens):
    eng = Engine()
    rec = Recorder(eng)
    keys = sym_keys(eng, lens)
    Mo = eng.I.models
    worlds = eng.run(drv_norm, [keys])
    for W in worlds:
        rp = lambda m: replay_norm(eng.model_value(m, keys))
        if W.exc is not None:
            rec.require(W, True, "no-exception", rp)
            continue
        first, second, exp = W.result[0], W.result[1], W.result[6]
        good = common(W.result) and b_and(Mo.eq_simple(first, exp), Mo.eq_simple(second, exp))
        rec.require(W, b_not(good), "normalised-last-wins-first-order", rp)
        if len(exp) < len(keys):
            rec.witness("keys-merged", W)
    return rec.result(worlds=len(worlds))


def main():
    chk = Check("C17", __doc__)
    nmax = 5 if chk.tier == "quick" else 6
    chk.bounds = {"fields": f"0..{nmax} fields, every key a symbolic string of 1 or 2 characters over {KS!r}",
                  "custom order": "0..3 symbolic keys (1-2 chars), case_sensitive in {True, False}"}
    chk.assumptions = ["keys longer than 2 characters / other letters and more fields are outside the claim", "values are distinct tags (values are never inspected by the middlewares)"]
    chk.expected_vacuity = ["alpha-reordered", "custom-reordered", "order-rejected", "keys-merged", "instance-reused", "shared-field", "copy-mode"]
    for n in range(nmax, -1, -1):
        for lens in itertools.product((1, 2), repeat=n):
            if n >= 4 and sum(lens) > n + 1:
                continue
            tag = "".join(map(str, lens)) or "none"
            chk.add_task(f"alpha-{tag}", task_alpha, lens=lens)
            chk.add_task(f"norm-{tag}", task_norm, lens=lens)
    for n in range(min(nmax, 3), -1, -1):
        for lens in itertools.product((1, 2), repeat=n):
            if sum(lens) > n + 1:
                continue
            for no in range(0, 4):
                for olens in ([tuple([1] * no)] + ([tuple([2] + [1] * (no - 1))] if no else [])):
                    for cs in (True, False):
                        chk.add_task(f"custom-{''.join(map(str, lens)) or 'none'}-o{''.join(map(str, olens)) or 'none'}-cs{int(cs)}",
                                     task_custom, lens=lens, olens=olens, cs=cs)
    seqs = [s for s in itertools.product(("alpha", "custom", "norm"), repeat=3) if len(set(s)) >= 2] + [("alpha", "custom"), ("custom", "alpha"), ("norm", "alpha")]
    chk.bounds["sequences"] = f"{len(seqs)} sequences of 2-3 applications (alphabetical, custom order (b, a), normalisation) on entries of 3 fields with 1-char symbolic keys"
    for seq in seqs:
        chk.add_task("seq-" + "-".join(seq), task_seq, lens=(1, 1, 1), seq=seq)
    chk.bounds["one instance, several entries / libraries"] = "each middleware (custom order (b, A) in both case modes) on a library of two entries - 2..3 fields with 1-char symbolic keys, and the same keys with swapped case - and then on a second library: results equal those of fresh instances"
    chk.add_task("norm-shared-field-object", task_norm_shared)
    for lens in ((1, 1, 1), (1, 1)):
        for kind, cs in (("alpha", None), ("norm", None), ("custom", True), ("custom", False)):
            chk.add_task(f"reuse-{kind}-cs{cs}-{len(lens)}", task_reuse, lens=lens, kind=kind, cs=cs)
    chk.bounds["copy mode"] = "each middleware with allow_inplace_modification=False on entries of 0..3 fields (1-2 char symbolic keys): result equals the in-place result (type, key, fields, other block), made of new objects, input untouched"
    for lens in ((), (1,), (1, 1), (2, 1), (1, 1, 1), (1, 2, 1)):
        for kind, cs in (("alpha", None), ("norm", None), ("custom", True), ("custom", False)):
            chk.add_task(f"copy-{kind}-cs{cs}-{''.join(map(str, lens)) or 'none'}", task_copy, lens=lens, kind=kind, cs=cs)
    chk.run()


if __name__ == "__main__":
    main()
