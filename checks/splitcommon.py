"""Shared helpers for the splitter-based checks (C01-C05, C09, C11)."""
from pysym.values import *  # noqa
import z3

SIGMA_S = '{}",=\n\\@ a#'


def sym_text(eng, parts, name="c"):
    """parts: list of ('lit', str) | ('sym', n, alphabet).  Literal characters become symbolic
    characters over a one-letter alphabet so that every position has its own term (raw texts are
    then identifiable as runs of input terms).  Returns (SStr, positions dict var.idx->pos, holes)"""
    cs = []
    holes = []
    for p in parts:
        if p[0] == "lit":
            for ch in p[1]:
                cs.append(eng.sym_char(f"{name}{len(cs)}", ch))
        else:
            start = len(cs)
            for _ in range(p[1]):
                cs.append(eng.sym_char(f"{name}{len(cs)}", p[2]))
            holes.append((start, len(cs)))
    pos = {c.var.idx: i for i, c in enumerate(cs)}
    return mk(cs), pos, holes


def span_of(s, pos):
    """(a, b) if s is a contiguous run of input terms, (p, p) marker for the empty string -> None,
    False if it is not a run of input terms"""
    cs = chars(s) if is_strlike(s) else None
    if cs is None:
        return False
    if len(cs) == 0:
        return None
    idx = []
    for c in cs:
        if isinstance(c, str) or c.fmap is not None or c.var.idx not in pos:
            return False
        idx.append(pos[c.var.idx])
    if idx != list(range(idx[0], idx[0] + len(idx))):
        return False
    return idx[0], idx[-1] + 1


def is_nl(c):
    return ch_eq(c, "\n")


def is_space(c):
    return c.isspace() if isinstance(c, str) else c.pred(str.isspace, "isspace")


def count_nl_eq(cs, k):
    """z3 condition: number of newlines among cs == k"""
    if not cs:
        return k == 0
    terms = [z3.If(b_z3(is_nl(c)), 1, 0) for c in cs]
    return SBool(z3.Sum(terms) == k) if len(terms) > 1 else SBool(terms[0] == k)
