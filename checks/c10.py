"""C10 — enclosing removal strips exactly one layer; adding back restores or re-encloses.

Encoded: RemoveEnclosingMiddleware._strip_enclosing/transform_entry/transform_string,
AddEnclosingMiddleware.__init__/_enclose/transform_entry/transform_string,
BlockMiddleware.transform/transform_block, Library, Entry/String/Field accessors; for the
re-parse clause additionally Splitter (all scanners) with the regex model.
Symbolic: the value (string without leading/trailing blank, or an int); options enumerated.
"""
import sys
import itertools

from pysym.engine import Engine
from pysym.values import *  # noqa
from pysym.harness import Check, Recorder

from bibtexparser.middlewares.enclosing import (RemoveEnclosingMiddleware, AddEnclosingMiddleware,
                                                ENTRY_POTENTIALLY_INT_FIELDS)
from bibtexparser.model import Entry, Field, String
from bibtexparser.library import Library
import bibtexparser
from checks import grammar as G
from bibtexparser.splitter import Splitter

SIGMA = '{}"# x1\\_\n'
NUMERIC = ("year", "month", "volume", "number", "pages", "edition", "chapter", "issue")


def drv(v, key, reuse, encl_int, default, with_remove):
    e = Entry("article", "k", [Field(key, v)])
    late = Field("late", "w")        # added after the removal step: has no recorded enclosing
    st = String("s", v)
    lib = Library([e, st])
    se = ss = me = ms = None
    if with_remove:
        lib = RemoveEnclosingMiddleware(True).transform(lib)
        se = e.fields[0].value
        ss = st.value
        me = e.parser_metadata.get("removed_enclosing")
        ms = st.parser_metadata.get("removed_enclosing")
    e.set_field(late)
    add = AddEnclosingMiddleware(reuse_previous_enclosing=reuse, enclose_integers=encl_int,
                                 default_enclosing=default, allow_inplace_modification=True)
    lib = add.transform(lib)
    return (se, me, ss, ms, e.fields[0].value, st.value, len(lib.blocks), late.value)


def drv_twice(v, key, default):
    """RemoveEnclosing applied twice to the same entry / string, then Add with reuse: every pass strips one layer and
    records it, so adding restores the value as it was before the LAST removal"""
    e = Entry("article", "k", [Field(key, v)])
    st = String("s", v)
    lib = Library([e, st])
    lib = RemoveEnclosingMiddleware(True).transform(lib)
    mid = (e.fields[0].value, st.value)
    lib = RemoveEnclosingMiddleware(True).transform(lib)
    last = (e.fields[0].value, st.value)
    add = AddEnclosingMiddleware(reuse_previous_enclosing=True, enclose_integers=True, default_enclosing=default, allow_inplace_modification=True)
    lib = add.transform(lib)
    return mid, last, (e.fields[0].value, st.value)


def drv_casekeys(v, default):
    """'Title' and 'title' are two fields: each gets its own enclosing back"""
    e = Entry("article", "k", [Field("Title", '"' + v + '"'), Field("title", "{" + v + "}"), Field("TITLE", v)])
    lib = Library([e])
    lib = RemoveEnclosingMiddleware(True).transform(lib)
    mid = [f.value for f in e.fields]
    add = AddEnclosingMiddleware(reuse_previous_enclosing=True, enclose_integers=True, default_enclosing=default, allow_inplace_modification=True)
    lib = add.transform(lib)
    return mid, [f.value for f in e.fields]


def drv_reuse(v1, v2, key, reuse, encl_int, default):
    """one Remove and one Add instance on two libraries in a row; the second must come out as from fresh instances"""
    def run(rm, add, v):
        e = Entry("article", "k", [Field(key, v), Field("other", v)])
        st = String("s", v)
        lib = add.transform(rm.transform(Library([e, st])))
        return [f.value for f in e.fields], st.value, len(lib.blocks)
    mk_add = lambda: AddEnclosingMiddleware(reuse_previous_enclosing=reuse, enclose_integers=encl_int,
                                            default_enclosing=default, allow_inplace_modification=True)
    rm, add = RemoveEnclosingMiddleware(True), mk_add()
    first = run(rm, add, v1)
    second = run(rm, add, v2)
    return first, run(RemoveEnclosingMiddleware(True), mk_add(), v1), second, run(RemoveEnclosingMiddleware(True), mk_add(), v2)


def drv_legal(v, key, reuse, encl_int, default, with_remove):
    """the driver plus: is v a value the splitter can produce (grammar `value`: braced / quoted / bare pieces joined by #)?"""
    return drv(v, key, reuse, encl_int, default, with_remove), G.is_value(v)


def esc_balanced(v, quote_default):
    depth = 0
    esc = False
    for c in v:
        if esc:
            esc = False
        elif c == "\\":
            esc = True
        elif c == "{":
            depth += 1
        elif c == "}":
            if depth == 0:
                return False
            depth -= 1
        elif c == '"' and depth == 0 and quote_default:
            return False
    return depth == 0 and not esc


def drv_reparse(v, default):
    if not esc_balanced(v, default == '"'):
        return None
    e = Entry("a", "k", [Field("f", v)])
    add = AddEnclosingMiddleware(reuse_previous_enclosing=False, enclose_integers=True, default_enclosing=default,
                                 allow_inplace_modification=True)
    add.transform(Library([e]))
    enc = e.fields[0].value
    lib = Splitter("@a{k, f = " + enc + "}").split()
    # ... "with the same content": through the default parse stack (a macro named like a value token is defined, so a
    # value that was written without its enclosing would be taken for a reference), the field holds v again
    full = bibtexparser.parse_string("@string{x = {S}}\n@a{k, f = " + enc + "}")
    content = [f.value for b in full.blocks if isinstance(b, Entry) for f in b.fields]
    return enc, lib.blocks, content


# ------------------------------------------------------------------ oracle (from the statement)
def scan_inside(cs):
    """over the symbolic characters cs[0..n-1] (escape-aware, a backslash hides the next character):
    early  = the brace opened by cs[0] is closed again before the last character,
    bareq  = an unescaped '"' at brace depth 0 occurs strictly inside.
    (the two ways in which first/last character are NOT one pair: '{a} # {b}', '"a" # "b"')"""
    n = len(cs)
    early = False
    bareq = False
    # states for the brace scan: depth counted from cs[0]; for the quote scan: depth counted after cs[0]
    st_b = {(0, False): True}
    st_q = {(0, False): True}

    def step(states, c, idx, quote_mode):
        nonlocal early, bareq
        new = {}

        def add(k, cond):
            if cond is False:
                return
            new[k] = b_or(new.get(k, False), cond)
        for (d, esc), cond in states.items():
            if esc:
                add((d, False), cond)
                continue
            isb, iso, isc = ch_eq(c, chr(92)), ch_eq(c, "{"), ch_eq(c, "}")
            add((d, True), b_and(cond, isb))
            add((d + 1, False), b_and(cond, iso))
            if d > 0:
                add((d - 1, False), b_and(cond, isc))
            else:
                add((0, False), b_and(cond, isc))
            rest = b_all([cond, b_not(isb), b_not(iso), b_not(isc)])
            if quote_mode and d == 0 and 0 < idx < n - 1:
                bareq = b_or(bareq, b_and(rest, ch_eq(c, '"')))
            add((d, False), rest)
        return new
    for idx, c in enumerate(cs):
        st_b = step(st_b, c, idx, False)
        if idx < n - 1:
            hit = b_or(st_b.get((0, False), False), False)
            if idx >= 0 and hit is not False:
                early = b_or(early, hit)
                st_b = {k: v for k, v in st_b.items() if k != (0, False)}
        if idx >= 1:
            st_q = step(st_q, c, idx, True)
    return early, bareq


def strip_expect(v):
    """-> list of (condition, stripped, kind) alternatives over the symbolic string v.  One OUTER pair is stripped: first
    and last character are braces / quotes AND belong together ('{a} # {b}' and '"a" # "b"' are concatenations of several
    enclosed texts, they have no outer pair)"""
    cs = chars(v)
    alts = []
    if len(cs) >= 2:
        early, bareq = scan_inside(cs)
        br = b_all([ch_eq(cs[0], "{"), ch_eq(cs[-1], "}"), b_not(early)])
        qu = b_all([ch_eq(cs[0], '"'), ch_eq(cs[-1], '"'), b_not(bareq)])
        alts.append((br, mk(cs[1:-1]), "{"))
        alts.append((qu, mk(cs[1:-1]), '"'))
        alts.append((b_not(b_or(br, qu)), v, "no-enclosing"))
    else:
        alts.append((True, v, "no-enclosing"))
    return alts


def enclose_expect(val, meta, key, reuse, encl_int, default, is_entry):
    """expected AddEnclosing output for a concrete-or-symbolic value; returns list of (cond, expected)"""
    if reuse and meta is not None:
        enc = meta
    else:
        enc = default
        if is_entry and key in NUMERIC and not encl_int:
            if isinstance(val, (int, SInt)) and not isinstance(val, bool):
                return [(True, val)]
            cs = chars(val)
            dig = b_all((c.isdigit() if isinstance(c, str) else c.pred(str.isdigit)) for c in cs) if cs else False
            txt = val
            return [(dig, val), (b_not(dig), wrap(txt, enc))]
    if isinstance(val, int) and not isinstance(val, bool):
        val = str(val)
    return [(True, wrap(val, enc))]


def wrap(val, enc):
    if isinstance(val, SInt):
        return None
    if enc == "{":
        return mk(("{",) + chars(val) + ("}",))
    if enc == '"':
        return mk(('"',) + chars(val) + ('"',))
    return val


def one_pair(v):
    """concrete twin of scan_inside: do first and last character belong together?"""
    depth = 0
    esc = False
    n = len(v)
    for i, c in enumerate(v):
        if esc:
            esc = False
            continue
        if c == chr(92):
            esc = True
        elif c == "{":
            depth += 1
        elif c == "}":
            if depth > 0:
                depth -= 1
            if v[0] == "{" and depth == 0 and i < n - 1:
                return False
        elif c == '"' and v[0] == '"' and depth == 0 and 0 < i < n - 1:
            return False
    return True


def native_strip(v):
    if len(v) >= 2 and v[0] == "{" and v[-1] == "}" and one_pair(v):
        return v[1:-1], "{"
    if len(v) >= 2 and v[0] == '"' and v[-1] == '"' and one_pair(v):
        return v[1:-1], '"'
    return v, "no-enclosing"


def native_enclose(val, meta, key, reuse, encl_int, default, is_entry):
    if reuse and meta is not None:
        enc = meta
    else:
        enc = default
        if is_entry and key in NUMERIC and not encl_int:
            if isinstance(val, int) or (isinstance(val, str) and val.isdigit()):
                return val
    s = str(val)
    return {"{": "{" + s + "}", '"': '"' + s + '"', "no-enclosing": s}[enc]


def replay(v, key, reuse, encl_int, default, with_remove):
    import logging
    logging.disable(logging.CRITICAL)
    try:
        se, me, ss, ms, fe, fs, nb, lv = drv(v, key, reuse, encl_int, default, with_remove)
    except Exception as ex:  # noqa
        from pysym.harness import guard_repo_exception
        guard_repo_exception(ex)
        return {"input": [v, key, reuse, encl_int, default, with_remove], "observed": f"raised {type(ex).__name__}: {ex}", "expected": "no exception"}
    bad = []
    if with_remove and not G.is_value(v):
        if reuse and v != fe:
            bad.append(f"restore gave {fe!r}, expected original {v!r}")
        xe, xs = fe, fs
    elif with_remove:
        es, ek = native_strip(v)
        if (se, (me or {}).get(key)) != (es, ek):
            bad.append(f"entry strip gave {(se, me)!r}, expected {(es, ek)!r}")
        if (ss, ms) != (es, ek):
            bad.append(f"string strip gave {(ss, ms)!r}, expected {(es, ek)!r}")
        xe = native_enclose(es, ek, key, reuse, encl_int, default, True)
        xs = native_enclose(es, ek, key, reuse, encl_int, default, False)
        if reuse and v != fe:
            bad.append(f"restore gave {fe!r}, expected original {v!r}")
    else:
        xe = native_enclose(v, None, key, reuse, encl_int, default, True)
        xs = native_enclose(v, None, key, reuse, encl_int, default, False)
    if lv != {"{": "{w}", '"': '"w"'}[default]:
        bad.append(f"a field without recorded enclosing got {lv!r}, expected the default enclosing")
    if type(fe) is not type(xe) or fe != xe:
        bad.append(f"entry value after AddEnclosing {fe!r}, expected {xe!r}")
    if type(fs) is not type(xs) or fs != xs:
        bad.append(f"string value after AddEnclosing {fs!r}, expected {xs!r}")
    if not bad:
        return None
    return {"input": [v, key, reuse, encl_int, default, with_remove], "observed": bad, "expected": "statement of C10"}


def replay_reparse(v, default):
    import logging
    logging.disable(logging.CRITICAL)
    try:
        r = drv_reparse(v, default)
    except Exception as ex:  # noqa
        from pysym.harness import guard_repo_exception
        guard_repo_exception(ex)
        return {"input": [v, default], "observed": f"raised {type(ex).__name__}: {ex}", "expected": "one field"}
    if r is None:
        return None
    enc, blocks, content = r
    ok = (len(blocks) == 1 and isinstance(blocks[0], Entry) and len(blocks[0].fields) == 1
          and blocks[0].fields[0].key == "f" and blocks[0].fields[0].value == enc and blocks[0].key == "k" and content == [v])
    if ok:
        return None
    return {"input": [v, default], "observed": {"document": "@a{k, f = " + enc + "}", "blocks": [type(b).__name__ for b in blocks],
            "fields": [(f.key, f.value) for b in blocks if isinstance(b, Entry) for f in b.fields], "content after the default parse stack": content},
            "expected": f"one entry with f = {enc}, content {v!r}"}


def sym_value(eng, L):
    v = eng.sym_str("c", L, SIGMA)
    cs = chars(v)
    g = True
    if L >= 1:
        g = b_all([b_not(ch_eq(cs[0], " ")), b_not(ch_eq(cs[-1], " ")), b_not(ch_eq(cs[0], "\n")), b_not(ch_eq(cs[-1], "\n"))])
    return v, g


def task_str(L, key, reuse, encl_int, default, with_remove):
    eng = Engine()
    rec = Recorder(eng)
    v, g = sym_value(eng, L)
    E = eng.I.models.eq_simple
    worlds = eng.run(drv_legal, [v, key, reuse, encl_int, default, with_remove], guard=g)
    for W in worlds:
        rp = lambda m: replay(eng.model_str(m, v), key, reuse, encl_int, default, with_remove)
        if W.exc is not None:
            rec.require(W, True, "no-exception", rp)
            continue
        (se, me, ss, ms, fe, fs, nb, lv), legal = W.result
        if nb != 2:
            rec.require(W, True, "block-count", rp)
            continue
        rec.require(W, b_not(E(lv, {"{": "{w}", '"': '"w"'}[default])), "field-without-metadata-gets-default", rp)
        if with_remove and legal is not True:
            # not a value the splitter can produce (unbalanced braces, a stray quote ...): which "pair" is stripped is not
            # fixed by the statement; only the exact restoration is
            if reuse:
                rec.require(W, b_not(b_and(E(fe, v), E(fs, v))), "restore-exact", rp)
            continue
        if with_remove:
            for cond, es, ek in strip_expect(v):
                if cond is False:
                    continue
                mk_ = me.get(key) if isinstance(me, dict) else None
                good = b_all([E(se, es), E(ss, es), mk_ == ek, ms == ek])
                rec.require(W, b_and(cond, b_not(good)), "strip-one-layer", rp)
                if ek != "no-enclosing":
                    rec.witness("stripped-" + ek, W, cond)
                for c2, xe in enclose_expect(es, ek, key, reuse, encl_int, default, True):
                    rec.require(W, b_all([cond, c2, b_not(E(fe, xe))]), "add-entry", rp)
                for c2, xs in enclose_expect(es, ek, key, reuse, encl_int, default, False):
                    rec.require(W, b_all([cond, c2, b_not(E(fs, xs))]), "add-string", rp)
            if reuse:
                rec.require(W, b_not(b_and(E(fe, v), E(fs, v))), "restore-exact", rp)
        else:
            for c2, xe in enclose_expect(v, None, key, reuse, encl_int, default, True):
                rec.require(W, b_and(c2, b_not(E(fe, xe))), "add-entry", rp)
                if xe is v and len(chars(v)) > 0:
                    rec.witness("digits-left-unenclosed", W, c2)
            for c2, xs in enclose_expect(v, None, key, reuse, encl_int, default, False):
                rec.require(W, b_and(c2, b_not(E(fs, xs))), "add-string", rp)
    if worlds and not rec.samples:
        ok, m = eng.query(worlds[-1], True)
        if ok:
            inp = eng.model_str(m, v)
            rec.samples.append({"value": inp, "options": [key, reuse, encl_int, default, with_remove],
                                "native": str(replay(inp, key, reuse, encl_int, default, with_remove))})
            rec.validated += 1
    return rec.result(worlds=len(worlds))


def task_int(key, reuse, encl_int, default):
    eng = Engine()
    rec = Recorder(eng)
    v = eng.sym_int("n", 0, 40)
    worlds = eng.run(drv, [v, key, reuse, encl_int, default, False])
    for W in worlds:
        rp = lambda m: replay(eng.model_value(m, v), key, reuse, encl_int, default, False)
        if W.exc is not None:
            rec.require(W, True, "int-no-exception", rp)
            continue
        se, me, ss, ms, fe, fs, nb, lv = W.result
        keep = key in NUMERIC and not encl_int
        if keep:
            good = isinstance(fe, (int, SInt)) and eng.I.models.eq_simple(fe, v)
            rec.require(W, b_not(good), "int-stays-int", rp)
            rec.witness("int-left-unenclosed", W)
        else:
            # must be the decimal rendering enclosed: checked by replay on the model value
            good = is_strlike(fe)
            rec.require(W, True if not good else False, "int-enclosed-as-text", rp)
            ok, m = eng.query(W, True)
            if ok:
                r = rp(m)
                rec.obligations += 1
                if r is not None:
                    r["tag"] = "int-enclosed-as-text"
                    rec.violations.append(r)
                else:
                    rec.unsat += 1
    return rec.result(worlds=len(worlds))


def task_reparse(L, default, prefix=""):
    eng = Engine()
    rec = Recorder(eng)
    v = mk([eng.sym_char(f"c{i}", prefix[i] if i < len(prefix) else SIGMA) for i in range(L)])
    g = True
    if L >= 1:
        g = b_all([b_not(ch_eq(chars(v)[0], " ")), b_not(ch_eq(chars(v)[-1], " ")), b_not(ch_eq(chars(v)[0], "\n")), b_not(ch_eq(chars(v)[-1], "\n"))])
    if g is False:
        return rec.result(worlds=0)
    E = eng.I.models.eq_simple
    worlds = eng.run(drv_reparse, [v, default], guard=g)
    for W in worlds:
        rp = lambda m: replay_reparse(eng.model_str(m, v), default)
        if W.exc is not None:
            rec.require(W, True, "reparse-no-exception", rp)
            continue
        if W.result is None:
            continue
        enc, blocks, content = W.result
        ok = len(blocks) == 1 and isinstance(blocks[0], Entry) and len(blocks[0].fields) == 1 and len(content) == 1
        if ok:
            f = blocks[0].fields[0]
            ok = b_all([E(f.key, "f"), E(f.value, enc), E(blocks[0].key, "k"), is_strlike(content[0]) and E(content[0], v)])
        rec.require(W, b_not(ok), "reparse-one-field", rp)
        rec.witness("balanced-value-reparsed", W)
    return rec.result(worlds=len(worlds))


def task_twice(L, key, default):
    eng = Engine()
    rec = Recorder(eng)
    v, g = sym_value(eng, L)
    E = eng.I.models.eq_simple
    worlds = eng.run(drv_twice, [v, key, default], guard=g)

    def rp(m):
        import logging
        logging.disable(logging.CRITICAL)
        val = eng.model_str(m, v)
        try:
            mid, last, fin = drv_twice(val, key, default)
        except Exception as ex:  # noqa
            from pysym.harness import guard_repo_exception
            guard_repo_exception(ex)
            return {"input": [val, key, default], "observed": f"raised {type(ex).__name__}: {ex}", "expected": "no exception"}
        if fin == mid or mid[0] != mid[0].strip():
            return None     # a value with surrounding white space is not one the splitter can produce (outside the quantifier)
        return {"input": [val, key, default], "observed": {"after first removal": mid, "after second removal": last, "after add(reuse)": fin},
                "expected": "add(reuse) restores the values as they were before the last removal"}
    for W in worlds:
        if W.exc is not None:
            rec.require(W, True, "twice-no-exception", rp)
            continue
        mid, last, fin = W.result
        mc = chars(mid[0])
        ws = lambda c: b_any(ch_eq(c, w) for w in " \n")
        edge_ws = b_or(ws(mc[0]), ws(mc[-1])) if len(mc) else False
        rec.require(W, b_and(b_not(edge_ws), b_not(E(list(fin), list(mid)))), "second-removal-recorded", rp)
        rec.witness("removed-twice", W)
    return rec.result(worlds=len(worlds))


def task_casekeys(L, default):
    eng = Engine()
    rec = Recorder(eng)
    v = eng.sym_str("c", L, "x1 #")
    g = True
    if L >= 1:
        g = b_all([b_not(ch_eq(chars(v)[0], " ")), b_not(ch_eq(chars(v)[-1], " "))])
    E = eng.I.models.eq_simple
    worlds = eng.run(drv_casekeys, [v, default], guard=g)

    def rp(m):
        import logging
        logging.disable(logging.CRITICAL)
        val = eng.model_str(m, v)
        try:
            mid, fin = drv_casekeys(val, default)
        except Exception as ex:  # noqa
            from pysym.harness import guard_repo_exception
            guard_repo_exception(ex)
            return {"input": [val, default], "observed": f"raised {type(ex).__name__}: {ex}", "expected": "no exception"}
        if mid == [val, val, val] and fin == ['"' + val + '"', "{" + val + "}", val]:
            return None
        return {"input": [val, default], "observed": {"after removal": mid, "after add(reuse)": fin}, "expected": ['"' + val + '"', "{" + val + "}", val]}
    for W in worlds:
        if W.exc is not None:
            rec.require(W, True, "casekeys-no-exception", rp)
            continue
        mid, fin = W.result
        good = b_and(E(mid, [v, v, v]), E(fin, [mk(('"',) + chars(v) + ('"',)), mk(("{",) + chars(v) + ("}",)), v]))
        rec.require(W, b_not(good), "fields-differing-in-case-keep-their-own-enclosing", rp)
        rec.witness("case-variant-keys", W)
    return rec.result(worlds=len(worlds))


def task_reuse(L1, L2, key, reuse, encl_int, default):
    eng = Engine()
    rec = Recorder(eng)
    v1, g1 = sym_value(eng, L1)
    v2 = mk([eng.sym_char(f"d{i}", SIGMA) for i in range(L2)])
    g2 = True
    if L2 >= 1:
        g2 = b_all([b_not(ch_eq(chars(v2)[0], " ")), b_not(ch_eq(chars(v2)[-1], " ")), b_not(ch_eq(chars(v2)[0], "\n")), b_not(ch_eq(chars(v2)[-1], "\n"))])
    E = eng.I.models.eq_simple
    worlds = eng.run(drv_reuse, [v1, v2, key, reuse, encl_int, default], guard=b_and(g1, g2))

    def rp(m):
        import logging
        logging.disable(logging.CRITICAL)
        a, b = eng.model_str(m, v1), eng.model_str(m, v2)
        try:
            r1, f1, r2, f2 = drv_reuse(a, b, key, reuse, encl_int, default)
        except Exception as ex:  # noqa
            from pysym.harness import guard_repo_exception
            guard_repo_exception(ex)
            return {"input": [a, b, key, reuse, encl_int, default], "observed": f"raised {type(ex).__name__}: {ex}", "expected": "no exception"}
        if r1 == f1 and r2 == f2:
            return None
        return {"input": [a, b, key, reuse, encl_int, default], "observed": {"second library through the same instances": r2}, "expected": f2}
    for W in worlds:
        if W.exc is not None:
            rec.require(W, True, "reuse-no-exception", rp)
            continue
        r1, f1, r2, f2 = W.result
        rec.require(W, b_not(b_and(E(r1, f1), E(r2, f2))), "instance-holds-no-state", rp)
        rec.witness("instance-reused", W)
    return rec.result(worlds=len(worlds))


def main():
    chk = Check("C10", __doc__)
    LS, LR = (6, 7) if chk.tier == "quick" else (8, 9)
    chk.bounds = {"value alphabet": SIGMA, "strip/restore/add: every value of length": f"0..{LS} without leading/trailing blank",
                  "options": "reuse x enclose_integers x default in {'{','\"'} x field key in {year, title} x with/without prior removal; every other key of the numeric-field list (month, volume, number, pages, edition, chapter, issue) and the near misses years / chapteredition / Year with values of length 1..2 and ints",
                  "int values": "symbolic int 0..40", "re-parse clause: every escape-aware brace-balanced value of length": f"0..{LR}"}
    chk.assumptions = ["values contain only the alphabet characters; '1' is the only digit",
                       "re-parse clause: brace balance is escape-aware (a backslash escapes the next character), value must not end in an unescaped backslash, and for the quote default contains no bare quote at depth 0 - as in the statement",
                       "integer rule: 'digit strings' are str.isdigit() strings over the alphabet (ASCII '1'; '1_1' and the like are not digit strings)"]
    chk.expected_vacuity = ["stripped-{", 'stripped-"', "digits-left-unenclosed", "int-left-unenclosed", "balanced-value-reparsed", "instance-reused", "removed-twice", "case-variant-keys"]
    for key, reuse, encl_int, default, with_remove in itertools.product(("year", "title"), (True, False), (True, False), ("{", '"'), (True, False)):
        for L in range(LS, -1, -1):
            chk.add_task(f"str-{key}-r{int(reuse)}-i{int(encl_int)}-{default}-rm{int(with_remove)}-L{L}", task_str, L=L, key=key,
                         reuse=reuse, encl_int=encl_int, default=default, with_remove=with_remove)
    for key, reuse, encl_int, default in itertools.product(("year", "title"), (True, False), (True, False), ("{", '"')):
        chk.add_task(f"int-{key}-r{int(reuse)}-i{int(encl_int)}-{default}", task_int, key=key, reuse=reuse, encl_int=encl_int, default=default)
    # every key of the documented numeric-field list, and near misses of it, at small lengths
    for key in NUMERIC[1:] + ("years", "chapteredition", "Year"):
        for reuse, encl_int, default in itertools.product((True, False), (True, False), ("{", '"')):
            chk.add_task(f"int-{key}-r{int(reuse)}-i{int(encl_int)}-{default}", task_int, key=key, reuse=reuse, encl_int=encl_int, default=default)
            for L in (2, 1):
                chk.add_task(f"str-{key}-r{int(reuse)}-i{int(encl_int)}-{default}-rm1-L{L}", task_str, L=L, key=key,
                             reuse=reuse, encl_int=encl_int, default=default, with_remove=True)
    chk.bounds["keys differing in case"] = "entry with Title = \"V\", title = {V}, TITLE = V (V of length 0..3 over x 1 blank #, not starting / ending in a blank): Remove, Add(reuse) restores all three"
    for default in ("{", '"'):
        for L in (3, 2, 1, 0):
            chk.add_task(f"casekeys-{default}-L{L}", task_casekeys, L=L, default=default)
    chk.bounds["removal applied twice"] = "values of length 0..5, key year / title, both defaults: Remove, Remove, Add(reuse) gives the value as it was before the last removal"
    for key, default in itertools.product(("year", "title"), ("{", '"')):
        for L in range(5, -1, -1):
            chk.add_task(f"twice-{key}-{default}-L{L}", task_twice, L=L, key=key, default=default)
    chk.bounds["one instance, two libraries"] = "Remove + Add instances applied to two libraries in a row, values of length 0..3 and 0..3, all option combinations, key year / title"
    for key, reuse, encl_int, default in itertools.product(("year", "title"), (True, False), (True, False), ("{", '"')):
        for L1, L2 in ((3, 3), (2, 3), (1, 2), (0, 1), (2, 0)):
            chk.add_task(f"reuse-{key}-r{int(reuse)}-i{int(encl_int)}-{default}-{L1}+{L2}", task_reuse, L1=L1, L2=L2, key=key,
                         reuse=reuse, encl_int=encl_int, default=default)
    for default in ("{", '"'):
        for L in range(LR, -1, -1):
            if L >= LR - 1 and L >= 2:
                for a in SIGMA:
                    chk.add_task(f"reparse-{default}-L{L}-{a!r}", task_reparse, L=L, default=default, prefix=a)
            else:
                chk.add_task(f"reparse-{default}-L{L}", task_reparse, L=L, default=default)
    chk.run()


if __name__ == "__main__":
    main()
