"""Models of builtins that must call back into interpreted code (key functions, __eq__ of repo
classes, generators).  These functions are *interpreted by the engine itself* (never run
natively), so their loops fork / merge like the code under test."""


def _is_gen(x):  # replaced by a native model
    raise NotImplementedError


def _materialize_call(fn, args, kwargs):
    new = []
    for a in args:
        if _is_gen(a):
            a = [x for x in a]
        new.append(a)
    return fn(*new, **kwargs)


def _apply_star(fn, it, kwargs):
    args = [x for x in it]
    return fn(*args, **kwargs)


def _any(it):
    for x in it:
        if x:
            return True
    return False


def _all(it):
    for x in it:
        if not x:
            return False
    return True


def _map(f, it):
    return iter([f(x) for x in it])


def _filter(f, it):
    if f is None:
        return iter([x for x in it if x])
    return iter([x for x in it if f(x)])


def _sorted(items, key, reverse):
    out = []
    for x in items:
        k = key(x) if key is not None else x
        i = len(out)
        if reverse:
            while i > 0 and out[i - 1][0] < k:
                i -= 1
        else:
            while i > 0 and k < out[i - 1][0]:
                i -= 1
        out.insert(i, (k, x))
    return [p[1] for p in out]


def _list_sort(lst, key, reverse):
    lst[:] = _sorted(list(lst), key, reverse)


def _minmax(items, key, want_max):
    best = items[0]
    bk = key(best) if key is not None else best
    for x in items[1:]:
        k = key(x) if key is not None else x
        if want_max:
            if k > bk:
                best, bk = x, k
        else:
            if k < bk:
                best, bk = x, k
    return best


def _seq_eq(a, b):
    i = 0
    n = len(a)
    while i < n:
        x = a[i]
        y = b[i]
        if x is not y and not (x == y):
            return False
        i += 1
    return True


def _dict_eq(a, b):
    for k in a:
        if k not in b:
            return False
        x = a[k]
        y = b[k]
        if x is not y and not (x == y):
            return False
    return True


def _seq_contains(seq, x):
    for y in seq:
        if y is x or y == x:
            return True
    return False


def _list_index(seq, x):
    i = 0
    for y in seq:
        if y is x or y == x:
            return i
        i += 1
    raise ValueError("x not in list")


def _list_index_from(seq, x, start, stop):
    """list.index(x, start[, stop]) - start / stop are interpreted like slice bounds"""
    n = len(seq)
    if start < 0:
        start = max(start + n, 0)
    if stop is None or stop > n:
        stop = n
    elif stop < 0:
        stop = max(stop + n, 0)
    i = start
    while i < stop:
        y = seq[i]
        if y is x or y == x:
            return i
        i += 1
    raise ValueError("x not in list")


def _list_remove(lst, x):
    i = 0
    for y in lst:
        if y is x or y == x:
            del lst[i]
            return None
        i += 1
    raise ValueError("list.remove(x): x not in list")


def _list_count(seq, x):
    n = 0
    for y in seq:
        if y is x or y == x:
            n += 1
    return n


def _obj_eq(a, b, fa, fb):
    r = NotImplemented
    if fa is not None:
        r = fa(a, b)
    if r is NotImplemented and fb is not None:
        r = fb(b, a)
    if r is NotImplemented:
        r = a is b
    return r


def _lru_call(cache, fn, args, kwargs):
    for k, kw, v in cache:
        if len(k) == len(args) and kw == kwargs:
            same = True
            i = 0
            for x in k:
                y = args[i]
                if not (x is y or (_is_plain(x) and _is_plain(y) and x == y)):
                    same = False
                i += 1
            if same:
                return v
    v = fn(*args, **kwargs)
    cache.append((args, kwargs, v))
    return v


def _is_plain(x):  # replaced by a native model: str-like / number / None / tuple of those
    raise NotImplementedError


def _next_gen(it, default, has_default):
    """next(generator[, default]): the loop is left after the first item, the generator stays suspended at its yield"""
    for x in it:
        return x
    if has_default:
        return default
    raise StopIteration
