"""Model of re.finditer over a symbolic string.

The *live* pattern string handed to re.finditer by the code under test is parsed with CPython's
own re._parser; a small backtracking matcher walks that parse tree over the SStr, asking the
engine for the truth of each character test (which forks the world).  Character classes are
answered by CPython itself per alphabet member.  Validated against the real `re` on concrete
strings by checks/selftest (DESIGN §2.5)."""
import re
import re._parser as sre_parse
import re._constants as C

from .values import *  # noqa
from .models import SMatch

_PARSED = {}


def parsed(pattern, flags):
    key = (pattern, flags)
    p = _PARSED.get(key)
    if p is None:
        p = _PARSED[key] = sre_parse.parse(pattern, flags)
    return p


_CAT_RE = {
    C.CATEGORY_WORD: re.compile(r"\w"), C.CATEGORY_NOT_WORD: re.compile(r"\W"),
    C.CATEGORY_DIGIT: re.compile(r"\d"), C.CATEGORY_NOT_DIGIT: re.compile(r"\D"),
    C.CATEGORY_SPACE: re.compile(r"\s"), C.CATEGORY_NOT_SPACE: re.compile(r"\S"),
}


_CP = {}


def class_pred(items):
    """python predicate for an IN node (cached per node)"""
    r = _CP.get(id(items))
    if r is None:
        r = _CP[id(items)] = (_class_pred(items), items)
    return r[0]


def _class_pred(items):
    negate = False
    tests = []
    for op, av in items:
        if op is C.NEGATE:
            negate = True
        elif op is C.LITERAL:
            tests.append(lambda ch, av=av: ord(ch) == av)
        elif op is C.RANGE:
            tests.append(lambda ch, av=av: av[0] <= ord(ch) <= av[1])
        elif op is C.CATEGORY:
            rx = _CAT_RE.get(av)
            if rx is None:
                raise Unsupported(f"regex category {av}")
            tests.append(lambda ch, rx=rx: rx.fullmatch(ch) is not None)
        else:
            raise Unsupported(f"regex class item {op}")
    return lambda ch: (any(t(ch) for t in tests)) != negate


class SFindIter:
    _mutable_ = True
    __slots__ = ("pattern", "string", "flags", "pos")

    def __init__(self, pattern, string, flags):
        if not isinstance(pattern, str):
            raise Unsupported("compiled / symbolic regex pattern")
        self.pattern, self.string, self.flags, self.pos = pattern, string, flags, 0
        if flags & ~(re.MULTILINE | re.UNICODE):
            raise Unsupported(f"regex flags {flags}")
        parsed(pattern, flags)

    def progress_pos(self):
        return self.pos

    def next_item(self, I, W):
        cs = chars(self.string)
        n = len(cs)
        prog = parsed(self.pattern, self.flags)
        M = Matcher(I, W, cs, self.flags)
        p = self.pos
        while p <= n:
            r = M.seq(list(prog), 0, p, (), lambda p2, g: (p2, g))
            if r is not None:
                end, groups = r
                if end == p:
                    raise Unsupported("empty regex match")
                gl = [None] * prog.state.groups
                for gid, span in groups:
                    gl[gid] = span
                self.pos = end
                W.mut += 1
                return True, SMatch(self.string, p, end, gl[1:], dict(prog.state.groupdict))
            p += 1
        self.pos = n + 1
        W.mut += 1
        return False, None


class Matcher:
    def __init__(self, I, W, cs, flags):
        self.I, self.W, self.cs, self.flags = I, W, cs, flags
        self.n = len(cs)

    def test(self, c, f, ck=None):
        if isinstance(c, str):
            return f(c)
        return self.I.truth(self.W, c.pred(f, ck))

    def lit(self, c, code, neg=False):
        if isinstance(c, str):
            return (ord(c) == code) != neg
        r = c.eq(chr(code))
        return self.I.truth(self.W, b_not(r) if neg else r)

    def seq(self, items, i, pos, groups, k):
        if i == len(items):
            return k(pos, groups)
        op, av = items[i]
        rest = lambda p, g: self.seq(items, i + 1, p, g, k)
        cs, n = self.cs, self.n
        if op is C.LITERAL:
            if pos < n and self.lit(cs[pos], av):
                return rest(pos + 1, groups)
            return None
        if op is C.NOT_LITERAL:
            if pos < n and self.lit(cs[pos], av, True):
                return rest(pos + 1, groups)
            return None
        if op is C.ANY:
            if pos < n and (self.flags & re.DOTALL or self.test(cs[pos], lambda ch: ch != "\n")):
                return rest(pos + 1, groups)
            return None
        if op is C.IN:
            f = class_pred(av)
            if pos < n and self.test(cs[pos], f, ("re", id(av))):
                return rest(pos + 1, groups)
            return None
        if op is C.BRANCH:
            for alt in av[1]:
                r = self.seq(list(alt), 0, pos, groups, rest)
                if r is not None:
                    return r
            return None
        if op is C.SUBPATTERN:
            gid, add, dele, p = av
            if add or dele:
                raise Unsupported("inline regex flags")
            if gid is None:
                return self.seq(list(p), 0, pos, groups, rest)
            return self.seq(list(p), 0, pos, groups,
                            lambda p2, g2: rest(p2, tuple(x for x in g2 if x[0] != gid) + ((gid, (pos, p2)),)))
        if op is C.MAX_REPEAT or op is C.MIN_REPEAT:
            lo, hi, p = av
            body = list(p)
            greedy = op is C.MAX_REPEAT

            def rep(count, pos, groups):
                def more():
                    if hi is C.MAXREPEAT or count < hi:
                        return self.seq(body, 0, pos, groups,
                                        lambda p2, g2: rep(count + 1, p2, g2) if p2 > pos else None)
                    return None
                if greedy:
                    r = more()
                    if r is not None:
                        return r
                    if count >= lo:
                        return rest(pos, groups)
                    return None
                if count >= lo:
                    r = rest(pos, groups)
                    if r is not None:
                        return r
                return more()
            return rep(0, pos, groups)
        if op is C.ASSERT or op is C.ASSERT_NOT:
            direction, p = av
            if direction > 0:
                r = self.seq(list(p), 0, pos, groups, lambda p2, g2: (p2, g2))
            else:
                lo, hi = p.getwidth()
                if lo != hi:
                    raise Unsupported("variable-width look-behind")
                start = pos - lo
                if start < 0:
                    r = None
                else:
                    r = self.seq(list(p), 0, start, groups, lambda p2, g2: (p2, g2) if p2 == pos else None)
            if op is C.ASSERT:
                return rest(pos, groups) if r is not None else None
            return rest(pos, groups) if r is None else None
        if op is C.AT:
            ok = None
            if av is C.AT_BEGINNING_STRING:
                ok = pos == 0
            elif av is C.AT_BEGINNING:
                ok = pos == 0
                if not ok and self.flags & re.MULTILINE:
                    ok = self.test(cs[pos - 1], lambda ch: ch == "\n")
            elif av is C.AT_END_STRING:
                ok = pos == n
            elif av is C.AT_END:
                if self.flags & re.MULTILINE:
                    ok = pos == n or self.test(cs[pos], lambda ch: ch == "\n")
                else:
                    ok = pos == n or (pos == n - 1 and self.test(cs[pos], lambda ch: ch == "\n"))
            else:
                raise Unsupported(f"regex anchor {av}")
            return rest(pos, groups) if ok else None
        raise Unsupported(f"regex node {op}")


def regex_once(I, W, kind, pattern, string, flags):
    """re.match / re.search / re.fullmatch on a (possibly symbolic) string -> SMatch or None"""
    if not isinstance(pattern, str):
        if isinstance(pattern, re.Pattern):
            flags = flags | (pattern.flags & ~re.UNICODE)
            pattern = pattern.pattern
        else:
            raise Unsupported("symbolic regex pattern")
    if flags & ~(re.MULTILINE | re.UNICODE | re.DOTALL):
        raise Unsupported(f"regex flags {flags}")
    if isinstance(string, str) and True:
        pass
    cs = chars(string)
    n = len(cs)
    prog = parsed(pattern, flags)
    M = Matcher(I, W, cs, flags)
    starts = range(0, n + 1) if kind == "search" else [0]
    for p in starts:
        if kind == "fullmatch":
            r = M.seq(list(prog), 0, p, (), lambda p2, g: (p2, g) if p2 == n else None)
        else:
            r = M.seq(list(prog), 0, p, (), lambda p2, g: (p2, g))
        if r is not None:
            end, groups = r
            gl = [None] * prog.state.groups
            for gid, span in groups:
                gl[gid] = span
            return SMatch(string, p, end, gl[1:], dict(prog.state.groupdict))
    return None
