"""Model of re.finditer over a symbolic string.

The *live* pattern string handed to re.finditer by the code under test is parsed with CPython's
own re._parser; a small backtracking matcher walks that parse tree over the SStr, asking the
engine for the truth of each character test (which forks the world).  Character classes are
answered by CPython itself per alphabet member.  Validated against the real `re` on concrete
strings by checks/selftest (DESIGN §2.5)."""
import re
import re._parser as sre_parse
import re._constants as C

from .values import *  # noqa
from .models import SMatch

_PARSED = {}


def parsed(pattern, flags):
    key = (pattern, flags)
    p = _PARSED.get(key)
    if p is None:
        p = _PARSED[key] = sre_parse.parse(pattern, flags)
    return p


_CAT_RE = {
    C.CATEGORY_WORD: re.compile(r"\w"), C.CATEGORY_NOT_WORD: re.compile(r"\W"),
    C.CATEGORY_DIGIT: re.compile(r"\d"), C.CATEGORY_NOT_DIGIT: re.compile(r"\D"),
    C.CATEGORY_SPACE: re.compile(r"\s"), C.CATEGORY_NOT_SPACE: re.compile(r"\S"),
}


_NODE_RX = {}
_FLAGS_OK = re.MULTILINE | re.UNICODE | re.DOTALL | re.IGNORECASE | re.ASCII


def node_pred(node, flags):
    """predicate of a single-character regex node (LITERAL / NOT_LITERAL / ANY / IN), answered by CPython: the node is
    compiled on its own with the pattern's flags, so IGNORECASE / ASCII / DOTALL behave exactly as in `re`"""
    key = (id(node[1]) if node[0] is C.IN else node[1], node[0], flags)
    r = _NODE_RX.get(key)
    if r is None:
        import re._compiler as K
        # str patterns are UNICODE patterns unless re.ASCII is given (re._parser.fix_flags)
        cflags = flags if flags & re.ASCII else flags | re.UNICODE
        st = sre_parse.State()
        st.flags = cflags
        rx = K.compile(sre_parse.SubPattern(st, [node]), cflags)
        r = _NODE_RX[key] = (lambda ch, rx=rx: rx.fullmatch(ch) is not None, node)
    return r[0]


def check_flags(flags):
    if flags & ~_FLAGS_OK:
        raise Unsupported(f"regex flags {flags}")


_CP = {}


def class_pred(items):
    """python predicate for an IN node (cached per node)"""
    r = _CP.get(id(items))
    if r is None:
        r = _CP[id(items)] = (_class_pred(items), items)
    return r[0]


def _class_pred(items):
    negate = False
    tests = []
    for op, av in items:
        if op is C.NEGATE:
            negate = True
        elif op is C.LITERAL:
            tests.append(lambda ch, av=av: ord(ch) == av)
        elif op is C.RANGE:
            tests.append(lambda ch, av=av: av[0] <= ord(ch) <= av[1])
        elif op is C.CATEGORY:
            rx = _CAT_RE.get(av)
            if rx is None:
                raise Unsupported(f"regex category {av}")
            tests.append(lambda ch, rx=rx: rx.fullmatch(ch) is not None)
        else:
            raise Unsupported(f"regex class item {op}")
    return lambda ch: (any(t(ch) for t in tests)) != negate


class SFindIter:
    _mutable_ = True
    __slots__ = ("pattern", "string", "flags", "pos", "must_advance")

    def __init__(self, pattern, string, flags):
        if not isinstance(pattern, str):
            raise Unsupported("compiled / symbolic regex pattern")
        self.pattern, self.string, self.flags, self.pos = pattern, string, flags, 0
        check_flags(flags)
        parsed(pattern, flags)
        self.must_advance = False

    def progress_pos(self):
        return self.pos

    def next_item(self, I, W):
        m = next_match(I, W, self.pattern, self.string, self.flags, self.pos, self.must_advance)
        W.mut += 1
        if m is None:
            self.pos = len(chars(self.string)) + 1
            return False, None
        self.pos = m.e
        self.must_advance = m.e == m.s
        return True, m


def next_match(I, W, pattern, string, flags, pos, must_advance):
    """first match starting at or after pos; an empty match is not accepted at pos itself when the previous match was
    empty and ended there (CPython >= 3.7: `must_advance`)"""
    cs = chars(string)
    n = len(cs)
    prog = parsed(pattern, flags)
    M = Matcher(I, W, cs, flags)
    p = pos
    while p <= n:
        if must_advance and p == pos:
            r = M.seq(list(prog), 0, p, (), lambda p2, g: (p2, g) if p2 > p else None)
        else:
            r = M.seq(list(prog), 0, p, (), lambda p2, g: (p2, g))
        if r is not None:
            end, groups = r
            gl = [None] * prog.state.groups
            for gid, span in groups:
                gl[gid] = span
            return SMatch(string, p, end, gl[1:], dict(prog.state.groupdict))
        p += 1
    return None


def all_matches(I, W, pattern, string, flags, limit=0):
    check_flags(flags)
    out = []
    pos, adv = 0, False
    n = len(chars(string))
    while pos <= n and (not limit or len(out) < limit):
        m = next_match(I, W, pattern, string, flags, pos, adv)
        if m is None:
            break
        out.append(m)
        pos, adv = m.e, m.e == m.s
    return out


def _norm(pattern, flags):
    if isinstance(pattern, re.Pattern):
        return pattern.pattern, int(flags) | (pattern.flags & ~re.UNICODE)
    if not isinstance(pattern, str):
        raise Unsupported("symbolic regex pattern")
    return pattern, int(flags)


def _slice(string, a, b):
    cs = chars(string)
    return mk(cs[a:b])


def _group(m, i):
    if i == 0:
        return _slice(m.string, m.s, m.e)
    span = m.groups_[i - 1]
    return None if span is None else _slice(m.string, span[0], span[1])


def regex_split(I, W, pattern, string, maxsplit=0, flags=0):
    pattern, flags = _norm(pattern, flags)
    out = []
    last = 0
    for m in all_matches(I, W, pattern, string, flags, maxsplit):
        out.append(_slice(string, last, m.s))
        for i in range(len(m.groups_)):
            out.append(_group(m, i + 1))
        last = m.e
    out.append(_slice(string, last, len(chars(string))))
    return out


def regex_findall(I, W, pattern, string, flags=0):
    pattern, flags = _norm(pattern, flags)
    out = []
    for m in all_matches(I, W, pattern, string, flags):
        k = len(m.groups_)
        if k == 0:
            out.append(_group(m, 0))
        elif k == 1:
            g = _group(m, 1)
            out.append("" if g is None else g)
        else:
            out.append(tuple("" if _group(m, i + 1) is None else _group(m, i + 1) for i in range(k)))
    return out


def _expand(m, repl):
    """template expansion for a plain-string replacement (\\1, \\g<1>, \\g<name>, escapes \\n \\t \\\\)"""
    if not isinstance(repl, str):
        raise Unsupported("regex replacement that is not a concrete string")
    out = ()
    i = 0
    while i < len(repl):
        ch = repl[i]
        if ch != "\\":
            out += (ch,)
            i += 1
            continue
        i += 1
        if i >= len(repl):
            raise Unsupported("bad regex replacement template")
        c = repl[i]
        if c.isdigit():
            j = i
            while j < len(repl) and repl[j].isdigit() and j - i < 2:
                j += 1
            g = _group(m, int(repl[i:j]))
            out += chars(g) if g is not None else ()
            i = j
        elif c == "g" and i + 1 < len(repl) and repl[i + 1] == "<":
            j = repl.index(">", i)
            name = repl[i + 2:j]
            gi = int(name) if name.isdigit() else m.gnames[name]
            g = _group(m, gi)
            out += chars(g) if g is not None else ()
            i = j + 1
        elif c in "ntrfv\\":
            out += ({"n": "\n", "t": "\t", "r": "\r", "f": "\f", "v": "\v", "\\": "\\"}[c],)
            i += 1
        else:
            raise Unsupported(f"regex replacement escape \\{c}")
    return out


def regex_sub(I, W, pattern, repl, string, count=0, flags=0, want_n=False):
    pattern, flags = _norm(pattern, flags)
    out = ()
    last = 0
    cs = chars(string)
    ms = all_matches(I, W, pattern, string, flags, count)
    for m in ms:
        out += tuple(cs[last:m.s]) + _expand(m, repl)
        last = m.e
    out += tuple(cs[last:])
    res = mk(out)
    return (res, len(ms)) if want_n else res


class Matcher:
    def __init__(self, I, W, cs, flags):
        self.I, self.W, self.cs, self.flags = I, W, cs, flags
        self.n = len(cs)

    def test(self, c, f, ck=None):
        if isinstance(c, str):
            return f(c)
        return self.I.truth(self.W, c.pred(f, ck))

    def lit(self, c, code, neg=False):
        if isinstance(c, str):
            return (ord(c) == code) != neg
        r = c.eq(chr(code))
        return self.I.truth(self.W, b_not(r) if neg else r)

    def seq(self, items, i, pos, groups, k):
        if i == len(items):
            return k(pos, groups)
        op, av = items[i]
        rest = lambda p, g: self.seq(items, i + 1, p, g, k)
        cs, n = self.cs, self.n
        if op is C.LITERAL and not (self.flags & re.IGNORECASE):
            if pos < n and self.lit(cs[pos], av):
                return rest(pos + 1, groups)
            return None
        if op is C.LITERAL or op is C.NOT_LITERAL or op is C.ANY or op is C.IN:
            if pos < n:
                f = node_pred(items[i], self.flags & _FLAGS_OK)
                ck = ("re", id(av) if op is C.IN else av, str(op), self.flags)
                if self.test(cs[pos], f, ck):
                    return rest(pos + 1, groups)
            return None
        if op is C.BRANCH:
            for alt in av[1]:
                r = self.seq(list(alt), 0, pos, groups, rest)
                if r is not None:
                    return r
            return None
        if op is C.SUBPATTERN:
            gid, add, dele, p = av
            if add or dele:
                raise Unsupported("inline regex flags")
            if gid is None:
                return self.seq(list(p), 0, pos, groups, rest)
            return self.seq(list(p), 0, pos, groups,
                            lambda p2, g2: rest(p2, tuple(x for x in g2 if x[0] != gid) + ((gid, (pos, p2)),)))
        if op is C.MAX_REPEAT or op is C.MIN_REPEAT:
            lo, hi, p = av
            body = list(p)
            greedy = op is C.MAX_REPEAT

            def rep(count, pos, groups):
                def more():
                    if hi is C.MAXREPEAT or count < hi:
                        return self.seq(body, 0, pos, groups,
                                        lambda p2, g2: rep(count + 1, p2, g2) if p2 > pos else None)
                    return None
                if greedy:
                    r = more()
                    if r is not None:
                        return r
                    if count >= lo:
                        return rest(pos, groups)
                    return None
                if count >= lo:
                    r = rest(pos, groups)
                    if r is not None:
                        return r
                return more()
            return rep(0, pos, groups)
        if op is C.ASSERT or op is C.ASSERT_NOT:
            direction, p = av
            if direction > 0:
                r = self.seq(list(p), 0, pos, groups, lambda p2, g2: (p2, g2))
            else:
                lo, hi = p.getwidth()
                if lo != hi:
                    raise Unsupported("variable-width look-behind")
                start = pos - lo
                if start < 0:
                    r = None
                else:
                    r = self.seq(list(p), 0, start, groups, lambda p2, g2: (p2, g2) if p2 == pos else None)
            if op is C.ASSERT:
                return rest(pos, groups) if r is not None else None
            return rest(pos, groups) if r is None else None
        if op is C.AT:
            ok = None
            if av is C.AT_BEGINNING_STRING:
                ok = pos == 0
            elif av is C.AT_BEGINNING:
                ok = pos == 0
                if not ok and self.flags & re.MULTILINE:
                    ok = self.test(cs[pos - 1], lambda ch: ch == "\n")
            elif av is C.AT_END_STRING:
                ok = pos == n
            elif av is C.AT_END:
                if self.flags & re.MULTILINE:
                    ok = pos == n or self.test(cs[pos], lambda ch: ch == "\n")
                else:
                    ok = pos == n or (pos == n - 1 and self.test(cs[pos], lambda ch: ch == "\n"))
            elif av is C.AT_BOUNDARY or av is C.AT_NON_BOUNDARY:
                wrx = re.compile(r"\w", self.flags & (re.ASCII | re.UNICODE))
                isw = lambda ch: wrx.fullmatch(ch) is not None
                before = pos > 0 and self.test(cs[pos - 1], isw, ("re-w", self.flags & re.ASCII))
                after = pos < n and self.test(cs[pos], isw, ("re-w", self.flags & re.ASCII))
                ok = (before != after) == (av is C.AT_BOUNDARY)
            else:
                raise Unsupported(f"regex anchor {av}")
            return rest(pos, groups) if ok else None
        raise Unsupported(f"regex node {op}")


def regex_once(I, W, kind, pattern, string, flags, pos=0):
    """re.match / re.search / re.fullmatch on a (possibly symbolic) string -> SMatch or None.  pos: Pattern.match(s, pos)
    etc. - the search starts there, but the string is not sliced ('^' and look-behind see what stands before pos)"""
    if not isinstance(pattern, str):
        if isinstance(pattern, re.Pattern):
            flags = flags | (pattern.flags & ~re.UNICODE)
            pattern = pattern.pattern
        else:
            raise Unsupported("symbolic regex pattern")
    check_flags(flags)
    cs = chars(string)
    n = len(cs)
    prog = parsed(pattern, flags)
    M = Matcher(I, W, cs, flags)
    pos = min(max(pos, 0), n)
    starts = range(pos, n + 1) if kind == "search" else [pos]
    for p in starts:
        if kind == "fullmatch":
            r = M.seq(list(prog), 0, p, (), lambda p2, g: (p2, g) if p2 == n else None)
        else:
            r = M.seq(list(prog), 0, p, (), lambda p2, g: (p2, g))
        if r is not None:
            end, groups = r
            gl = [None] * prog.state.groups
            for gid, span in groups:
                gl[gid] = span
            return SMatch(string, p, end, gl[1:], dict(prog.state.groupdict))
    return None
