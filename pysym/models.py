"""Models of builtins / stdlib used by the code under test.  Every model is symbolic-aware and is
part of every claim that uses it (DESIGN §2.5).  Anything not modelled raises Unsupported."""
import builtins
import collections
import dataclasses
import logging
import types
import warnings
import re
import string as _string

from .values import *  # noqa
from .interp import (PyRaise, pyraise, Redirect, BM, BuiltinMethod, NativeBound, SGen, SFunc, NULL, JUMPED, Cell)

MISSING = object()


class NeedTruthCall(BaseException):
    """truth of an object whose class defines __bool__/__len__ in interpreted code"""

    def __init__(self, fn, obj):
        self.fn, self.obj = fn, obj

_WS_DEFAULT = None


def native(f, *a, **k):
    """run a native operation of the interpreted program; its exceptions belong to the program"""
    try:
        return f(*a, **k)
    except NeedDecision:
        raise
    except (Unsupported, EngineError):
        raise
    except Exception as e:  # noqa
        raise PyRaise(e)


class SIter:
    """index-based iterator over list / tuple / str / SStr (sees list mutations like CPython)"""
    _mutable_ = True
    __slots__ = ("seq", "i", "symbolic")

    def __init__(self, seq, i=0):
        self.seq = seq
        self.i = i
        self.symbolic = isinstance(seq, SStr)

    def progress_pos(self):
        return self.i if self.symbolic else 0


class SSet:
    """insertion-ordered set; items are pairwise decided-distinct under the world guard"""
    _mutable_ = True
    __slots__ = ("items",)

    def __init__(self, items=()):
        self.items = list(items)


class SMatch:
    _mutable_ = False
    __slots__ = ("string", "s", "e", "groups_", "gnames")

    def __init__(self, string, s, e, groups=(), gnames=None):
        self.string, self.s, self.e, self.groups_ = string, s, e, tuple(groups)
        self.gnames = gnames or {}

    def __deepcopy__(self, memo):
        return self


class Stub:
    """harness-provided object; `methods` maps a name to fn(interp, W, self, args, kwargs)"""
    _mutable_ = True

    def __init__(self, name, methods=None, attrs=None):
        self.stub_name = name
        self.methods = methods or {}
        self.attrs = attrs or {}
        self.log = []


class StubMethod:
    _mutable_ = True
    __slots__ = ("obj", "name")

    def __init__(self, obj, name):
        self.obj, self.name = obj, name


def is_sym(v):
    return isinstance(v, (SStr, SChar, SBool, SInt))


_SIMPLE_ATOMS = (type(None), bool, int, float, str, bytes, SStr, SChar, SBool, SInt, type, types.FunctionType,
                 types.BuiltinFunctionType, types.ModuleType)


def is_simple(v, depth=0):
    if isinstance(v, _SIMPLE_ATOMS):
        return True
    if depth > 6:
        return False
    if isinstance(v, (list, tuple)):
        return all(is_simple(x, depth + 1) for x in v)
    if isinstance(v, dict):
        return all(is_simple(k, depth + 1) and is_simple(x, depth + 1) for k, x in v.items())
    if isinstance(v, SSet):
        return all(is_simple(x, depth + 1) for x in v.items)
    if isinstance(v, (set, frozenset)):
        return True
    return False


def all_concrete(*vs):
    for v in vs:
        if isinstance(v, (SStr, SChar, SBool, SInt, SSet, SIter, SGen)):
            return False
        if isinstance(v, (list, tuple)):
            if not all_concrete(*v):
                return False
        elif isinstance(v, dict):
            if not all_concrete(*v.keys()) or not all_concrete(*v.values()):
                return False
    return True


def model_type(v):
    t = sym_type(v)
    if t is not None:
        return t
    if isinstance(v, SSet):
        return set
    if isinstance(v, (SFunc,)):
        return types.FunctionType
    if isinstance(v, (BM, BuiltinMethod, NativeBound, StubMethod)):
        return types.MethodType
    if isinstance(v, SGen):
        return types.GeneratorType
    return type(v)


class Models:
    def __init__(self, interp):
        self.I = interp
        self.eng = interp.eng
        self.builtin_table = self._builtin_table()
        self.pyfunc_table = self._pyfunc_table()

    # ------------------------------------------------------------------ helpers
    def truth(self, W, v):
        return self.I.truth(W, v)

    def truth_of_object(self, W, v):
        if isinstance(v, SSet):
            return len(v.items) > 0
        if isinstance(v, (SIter, SMatch, SGen, SFunc, BM, BuiltinMethod, NativeBound, Stub, StubMethod)):
            return True
        t = type(v)
        fb, fl = self.mro_lookup(t, "__bool__"), self.mro_lookup(t, "__len__")
        if fb is not None or fl is not None:
            if isinstance(v, (collections.OrderedDict,)):
                return len(v) > 0
            f = fb if fb is not None else fl
            if isinstance(f, types.FunctionType) and self.world_owned_class(t):
                raise NeedTruthCall(f, v)
            raise Unsupported(f"truth of {t} with __bool__/__len__")
        return True

    def is_same(self, a, b):
        return a is b

    def world_owned_class(self, cls):
        return self.eng.world_owned_class(cls)

    def mro_lookup(self, cls, name):
        for k in cls.__mro__:
            if name in k.__dict__:
                return k.__dict__[name]
        return None

    def mro_owner(self, cls, name):
        for k in cls.__mro__:
            if name in k.__dict__:
                return k
        return None

    # ------------------------------------------------------------------ equality / ordering
    def eq_simple(self, a, b):
        """equality of simple values as SBool/bool (no forks)"""
        sa, sb = is_strlike(a), is_strlike(b)
        if sa or sb:
            if sa and sb:
                return s_eq(a, b)
            return False
        if isinstance(a, SInt) or isinstance(b, SInt):
            if isinstance(a, (int, SInt)) and isinstance(b, (int, SInt)):
                return i_cmp("==", a, b)
            return False
        if isinstance(a, SBool) or isinstance(b, SBool):
            if isinstance(a, (bool, SBool)) and isinstance(b, (bool, SBool)):
                if isinstance(a, bool):
                    return b if a else b_not(b)
                if isinstance(b, bool):
                    return a if b else b_not(a)
                return SBool(a.e == b.e)
            if isinstance(a, (int,)) or isinstance(b, (int,)):
                raise Unsupported("SBool == int")
            return False
        if isinstance(a, (list, tuple)) and isinstance(b, (list, tuple)):
            if isinstance(a, list) != isinstance(b, list):
                return False
            if len(a) != len(b):
                return False
            return b_all(self.eq_simple(x, y) for x, y in zip(a, b))
        if isinstance(a, dict) and isinstance(b, dict):
            return self.dict_eq_simple(a, b)
        if isinstance(a, SSet) or isinstance(b, SSet):
            ia = a.items if isinstance(a, SSet) else (sorted(a, key=repr) if isinstance(a, (set, frozenset)) else None)
            ib = b.items if isinstance(b, SSet) else (sorted(b, key=repr) if isinstance(b, (set, frozenset)) else None)
            if ia is None or ib is None:
                return False
            if len(ia) != len(ib):
                return False  # items are pairwise distinct in each set
            return b_all(b_any(self.eq_simple(x, y) for y in ib) for x in ia)
        try:
            return bool(a == b)
        except Exception:
            return a is b

    def dict_eq_simple(self, a, b):
        if len(a) != len(b):
            return False
        ka, kb = list(a.keys()), list(b.keys())
        if all_concrete(*ka) and all_concrete(*kb):
            if set(map(self._hk, ka)) != set(map(self._hk, kb)):
                return False
            return b_all(self.eq_simple(a[k], b[k]) for k in ka)
        # symbolic keys: every key of a equals some key of b with equal value (keys distinct in each)
        r = True
        for k in ka:
            alt = False
            for k2 in kb:
                alt = b_or(alt, b_and(self.eq_simple(k, k2), self.eq_simple(a[k], b[k2])))
            r = b_and(r, alt)
            if r is False:
                return False
        return r

    @staticmethod
    def _hk(k):
        return (type(k).__name__, k) if not isinstance(k, (int, bool, float)) else ("n", k)

    def eq_values(self, W, a, b):
        """== ; returns bool/SBool or Redirect"""
        if a is b and not isinstance(a, float):
            return True
        if is_simple(a) and is_simple(b):
            return self.eq_simple(a, b)
        if isinstance(a, (list, tuple)) and isinstance(b, (list, tuple)):
            if isinstance(a, list) != isinstance(b, list) or len(a) != len(b):
                return False
            from . import prelude
            return Redirect(prelude._seq_eq, (a, b))
        if isinstance(a, dict) and isinstance(b, dict):
            if len(a) != len(b):
                return False
            from . import prelude
            return Redirect(prelude._dict_eq, (a, b))
        ta, tb = type(a), type(b)
        fa = self._eq_method(ta)
        fb = self._eq_method(tb)
        if fa is None and fb is None:
            return a is b
        from . import prelude
        return Redirect(prelude._obj_eq, (a, b, fa, fb))

    def _eq_method(self, t):
        if t in (list, tuple, dict, str, int, bool, float, type(None), SStr, SChar, SBool, SInt, SSet):
            return None
        f = self.mro_lookup(t, "__eq__")
        if f is None or f is object.__eq__:
            return None
        if isinstance(f, types.FunctionType):
            if self.I.interpretable_func(f) or self.world_owned_class(self.mro_owner(t, "__eq__")):
                return f
            raise Unsupported(f"__eq__ of foreign class {t}")
        return None  # builtin slot (e.g. BaseException): identity

    def lt_values(self, a, b, or_equal=False):
        if isinstance(a, (int, SInt)) and isinstance(b, (int, SInt)) and not isinstance(a, SBool):
            if isinstance(a, int) and isinstance(b, int):
                return a <= b if or_equal else a < b
            return i_cmp("<=" if or_equal else "<", a, b)
        if is_strlike(a) and is_strlike(b):
            return s_lt(a, b, or_equal)
        if isinstance(a, (tuple, list)) and isinstance(b, (tuple, list)) and type(a) is type(b):
            n = min(len(a), len(b))
            res = (len(a) < len(b)) or (or_equal and len(a) == len(b))
            for i in range(n - 1, -1, -1):
                x, y = a[i], b[i]
                lt = self.lt_values(x, y, False)
                eq = self.eq_simple(x, y)
                res = b_or(lt, b_and(eq, res))
            return res
        if isinstance(a, float) or isinstance(b, float):
            return native(lambda: a <= b if or_equal else a < b)
        pyraise(TypeError, f"'<' not supported between instances of '{model_type(a).__name__}' and '{model_type(b).__name__}'")

    def compare(self, W, op, a, b):
        if op == "==":
            return self.eq_values(W, a, b)
        if op == "!=":
            r = self.eq_values(W, a, b)
            if isinstance(r, Redirect):
                r.ret = "negate"
                return r
            return b_not(r)
        if op == "<":
            return self.lt_values(a, b)
        if op == "<=":
            return self.lt_values(a, b, True)
        if op == ">":
            return self.lt_values(b, a)
        if op == ">=":
            return self.lt_values(b, a, True)
        raise Unsupported(f"compare {op}")

    # ------------------------------------------------------------------ containers
    def make_set(self, W, items):
        s = SSet()
        for x in items:
            self.set_add(W, s, x)
        return s

    def set_items(self, s):
        if isinstance(s, SSet):
            return s.items
        return sorted(s, key=repr)

    def set_contains(self, s, x):
        return b_any(self.eq_simple(x, y) for y in self.set_items(s))

    def set_add(self, W, s, x):
        if not isinstance(s, SSet):
            raise Unsupported("mutation of a native set")
        if not is_simple(x):
            # hashable object compared by identity unless it defines __eq__ (not needed here)
            for y in s.items:
                if y is x:
                    return
            s.items.append(x); W.mut += 1
            return
        for y in s.items:
            if self.truth(W, self.eq_simple(x, y)):
                return
        s.items.append(x)
        W.mut += 1

    def _keys_concrete(self, d):
        for k in d:
            if isinstance(k, (SStr, SChar, SInt)):
                return False
        return True

    def dict_find(self, W, d, k):
        """existing key object equal to k (forks on symbolic keys) or MISSING"""
        if not is_sym(k) and self._keys_concrete(d):
            try:
                if k in d:
                    return k
            except TypeError as e:
                raise PyRaise(e)
            return MISSING
        for k2 in list(d.keys()):
            c = self.eq_simple(k, k2)
            if c is False:
                continue
            if self.truth(W, c):
                return k2
        return MISSING

    def dict_contains(self, d, k):
        if not is_sym(k) and self._keys_concrete(d):
            return native(lambda: k in d)
        return b_any(self.eq_simple(k, k2) for k2 in d.keys())

    def dict_set(self, W, d, k, v, fresh=False):
        k2 = self.dict_find(W, d, k)
        if k2 is MISSING:
            native(d.__setitem__, k, v)
        else:
            d[k2] = v
        W.mut += 1

    def iter_to_list(self, W, it):
        if isinstance(it, list):
            return list(it)
        if isinstance(it, tuple):
            return list(it)
        if isinstance(it, str):
            return list(it)
        if isinstance(it, SStr):
            return list(it.cs)
        if isinstance(it, SChar):
            return [it]
        if isinstance(it, dict):
            return list(it.keys())
        if isinstance(it, SSet):
            return list(it.items)
        if isinstance(it, (set, frozenset)):
            return sorted(it, key=repr)
        if isinstance(it, range):
            return list(it)
        if isinstance(it, SIter):
            out = []
            while True:
                ok, v = self.iter_next(W, it)
                if not ok:
                    return out
                out.append(v)
        if isinstance(it, SGen):
            raise Unsupported("native consumer of a generator (missing materialisation)")
        if hasattr(it, "iter_all"):
            return it.iter_all(self.I, W)
        pyraise(TypeError, f"'{model_type(it).__name__}' object is not iterable")

    def get_iter(self, W, v):
        if isinstance(v, (SIter, SGen)) or hasattr(v, "next_item"):
            return v
        if isinstance(v, (list, tuple, str, SStr)):
            return SIter(v)
        if isinstance(v, SChar):
            return SIter(SStr((v,)))
        if isinstance(v, (dict, SSet, set, frozenset, range)):
            return SIter(self.iter_to_list(W, v))
        pyraise(TypeError, f"'{model_type(v).__name__}' object is not iterable")

    def iter_next(self, W, it):
        if isinstance(it, SIter):
            seq = it.seq
            n = len(seq)
            if it.i >= n:
                return False, None
            v = seq.cs[it.i] if isinstance(seq, SStr) else seq[it.i]
            it.i += 1
            W.mut += 1
            return True, v
        if hasattr(it, "next_item"):
            return it.next_item(self.I, W)
        raise Unsupported(f"next() on {type(it)}")

    # ------------------------------------------------------------------ contains / getitem / setitem
    def str_contains(self, hay, needle):
        h, n = chars(hay), chars(needle)
        if len(n) == 0:
            return True
        if len(n) > len(h):
            return False
        if len(n) == 1:
            return b_any(ch_eq(c, n[0]) for c in h)
        return b_any(s_eq(mk(h[i:i + len(n)]), mk(n)) for i in range(len(h) - len(n) + 1))

    def contains(self, W, cont, x):
        if is_strlike(cont):
            if not is_strlike(x):
                pyraise(TypeError, "'in <string>' requires string as left operand")
            return self.str_contains(cont, x)
        if isinstance(cont, (list, tuple)):
            if is_simple(x) and is_simple(cont):
                return b_any(self.eq_simple(x, y) for y in cont)
            for y in cont:
                if y is x:
                    return True
            from . import prelude
            return Redirect(prelude._seq_contains, (cont, x))
        if isinstance(cont, dict):
            return self.dict_contains(cont, x)
        if isinstance(cont, (SSet, set, frozenset)):
            if is_simple(x):
                return self.set_contains(cont, x)
            return any(y is x for y in self.set_items(cont))
        if isinstance(cont, range):
            if isinstance(x, SInt):
                raise Unsupported("SInt in range")
            return x in cont
        f = self.mro_lookup(type(cont), "__contains__")
        if isinstance(f, types.FunctionType):
            return Redirect(f, (cont, x))
        pyraise(TypeError, f"argument of type '{model_type(cont).__name__}' is not iterable")

    def _index(self, W, i, n):
        i = self.I.concretize_int(W, i)
        if isinstance(i, bool) or not isinstance(i, int):
            pyraise(TypeError, "indices must be integers")
        if i < 0:
            i += n
        if i < 0 or i >= n:
            pyraise(IndexError, "index out of range")
        return i

    def _slice(self, W, sl):
        return slice(self.I.concretize_int(W, sl.start), self.I.concretize_int(W, sl.stop), self.I.concretize_int(W, sl.step))

    def getitem(self, W, o, k):
        if isinstance(o, (str, SStr, SChar)):
            cs = chars(o)
            if isinstance(k, slice):
                return mk(cs[self._slice(W, k)])
            return cs[self._index(W, k, len(cs))]
        if isinstance(o, (list, tuple)):
            if isinstance(k, slice):
                return o[self._slice(W, k)]
            return o[self._index(W, k, len(o))]
        if isinstance(o, dict):
            k2 = self.dict_find(W, o, k)
            if k2 is MISSING:
                raise PyRaise(KeyError(k))
            return o[k2]
        if isinstance(o, type):
            return native(lambda: o[k])
        f = self.mro_lookup(type(o), "__getitem__")
        if isinstance(f, types.FunctionType):
            return Redirect(f, (o, k))
        pyraise(TypeError, f"'{model_type(o).__name__}' object is not subscriptable")

    def setitem(self, W, o, k, v):
        if isinstance(o, list):
            if isinstance(k, slice):
                o[self._slice(W, k)] = self.iter_to_list(W, v)
            else:
                o[self._index(W, k, len(o))] = v
            W.mut += 1
            return None
        if isinstance(o, dict):
            self.dict_set(W, o, k, v)
            return None
        f = self.mro_lookup(type(o), "__setitem__")
        if isinstance(f, types.FunctionType):
            return Redirect(f, (o, k, v), ret="discard")
        pyraise(TypeError, f"'{model_type(o).__name__}' object does not support item assignment")

    def delitem(self, W, o, k):
        if isinstance(o, list):
            if isinstance(k, slice):
                del o[self._slice(W, k)]
            else:
                del o[self._index(W, k, len(o))]
            W.mut += 1
            return None
        if isinstance(o, dict):
            k2 = self.dict_find(W, o, k)
            if k2 is MISSING:
                raise PyRaise(KeyError(k))
            del o[k2]
            W.mut += 1
            return None
        f = self.mro_lookup(type(o), "__delitem__")
        if isinstance(f, types.FunctionType):
            return Redirect(f, (o, k), ret="discard")
        pyraise(TypeError, f"'{model_type(o).__name__}' object doesn't support item deletion")

    # ------------------------------------------------------------------ binary operators
    def binary(self, W, sym, a, b):
        inplace = sym.endswith("=") and sym not in ("==", "!=", "<=", ">=")
        op = sym[:-1] if inplace else sym
        if op == "+":
            if is_strlike(a) and is_strlike(b):
                return mk(chars(a) + chars(b))
            if isinstance(a, list) and isinstance(b, list):
                if inplace:
                    a.extend(b); W.mut += 1
                    return a
                return a + b
            if isinstance(a, list) and inplace:
                a.extend(self.iter_to_list(W, b)); W.mut += 1
                return a
            if isinstance(a, tuple) and isinstance(b, tuple):
                return a + b
        if op == "*":
            if is_strlike(a) and isinstance(b, (int, SInt)) and not isinstance(b, bool):
                n = self.I.concretize_int(W, b)
                return mk(chars(a) * max(n, 0))
            if is_strlike(b) and isinstance(a, (int, SInt)):
                n = self.I.concretize_int(W, a)
                return mk(chars(b) * max(n, 0))
            if isinstance(a, (list, tuple)) and isinstance(b, int):
                return a * b
        if op == "%" and is_strlike(a):
            if all_concrete(a, b):
                return native(lambda: a % b)
            vals = list(b) if isinstance(b, tuple) else [b]
            fc = chars(a)
            if all(isinstance(c, str) for c in fc) and re.search(r"%[-0-9*]", "".join(fc)):
                # concrete format with '-' flag / width ('%-*s', '%5s', '%-12s', '%3d'): padding with blanks; the lengths of
                # the rendered operands are concrete (their characters may be symbolic)
                fmt = "".join(fc)
                out, i, k = [], 0, 0
                for mm in re.finditer(r"%(-?)(\*|[1-9][0-9]*)?([srdi%])", fmt):
                    if "%" in fmt[i:mm.start()]:
                        raise Unsupported("% conversion with flags beyond '-' and a width")
                    out.extend(fmt[i:mm.start()])
                    i = mm.end()
                    left, width, conv = mm.group(1) == "-", mm.group(2), mm.group(3)
                    if conv == "%":
                        if left or width:
                            raise Unsupported("'%%' with flags")
                        out.append("%")
                        continue
                    if width == "*":
                        if k >= len(vals):
                            pyraise(TypeError, "not enough arguments for format string")
                        wv = vals[k]
                        k += 1
                        if not isinstance(wv, (int, SInt)) or isinstance(wv, bool):
                            pyraise(TypeError, "* wants int")
                        wv = self.I.concretize_int(W, wv)
                        if wv < 0:
                            left, wv = True, -wv
                    else:
                        wv = int(width or 0)
                    if k >= len(vals):
                        pyraise(TypeError, "not enough arguments for format string")
                    v = vals[k]
                    k += 1
                    if conv in "di" and (not isinstance(v, (int, SInt)) or isinstance(v, bool)):
                        raise Unsupported("%d of a non-int operand")
                    r = self.py_repr(W, v) if conv == "r" else self.py_str(W, v)
                    if isinstance(r, Redirect):
                        raise Unsupported("% formatting of an object with __str__")
                    rc = list(chars(r))
                    pad = [" "] * max(0, wv - len(rc))
                    out.extend(rc + pad if left else pad + rc)
                if "%" in fmt[i:]:
                    raise Unsupported("% conversion with flags beyond '-' and a width")
                out.extend(fmt[i:])
                if k != len(vals):
                    pyraise(TypeError, "not all arguments converted during string formatting")
                return mk(out)
            T = lambda c, ch: (c == ch) if isinstance(c, str) else self.I.truth(W, ch_eq(c, ch))
            out, i, k = [], 0, 0
            while i < len(fc):
                if T(fc[i], "%"):
                    if i + 1 >= len(fc):
                        pyraise(ValueError, "incomplete format")
                    c = fc[i + 1]
                    if T(c, "%"):
                        out.append("%")
                    elif T(c, "s") or T(c, "r") or T(c, "d") or T(c, "x") or T(c, "X") or T(c, "o") or T(c, "i"):
                        if k >= len(vals):
                            pyraise(TypeError, "not enough arguments for format string")
                        if not (T(c, "s") or T(c, "r")):
                            if not isinstance(vals[k], (int, float, SInt)) or isinstance(vals[k], bool):
                                pyraise(TypeError, "%d format: a real number is required")
                            if not T(c, "d") and not T(c, "i"):
                                raise Unsupported("% conversion to another base with symbolic operands")
                        r = self.py_repr(W, vals[k]) if T(c, "r") else self.py_str(W, vals[k])
                        if isinstance(r, Redirect):
                            raise Unsupported("% formatting of an object with __str__")
                        out.extend(chars(r))
                        k += 1
                    elif isinstance(c, str) and c in "0123456789.-+ #*(lhLceEfFgGa":
                        raise Unsupported(f"% conversion {c!r} with symbolic operands")
                    else:
                        # a character that is no conversion type (the alphabets of the checks hold no flag / width characters)
                        for ch in "0123456789.-+ #*(lhLceEfFgGa":
                            if T(c, ch):
                                raise Unsupported(f"% conversion {ch!r} with symbolic operands")
                        pyraise(ValueError, "unsupported format character")
                    i += 2
                else:
                    out.append(fc[i])
                    i += 1
            if k != len(vals):
                pyraise(TypeError, "not all arguments converted during string formatting")
            return mk(out)
        if isinstance(a, (SInt,)) or isinstance(b, (SInt,)):
            if isinstance(a, (int, SInt)) and isinstance(b, (int, SInt)):
                if op in ("+", "-", "*"):
                    return i_arith(op, a, b)
                if op in ("%", "//"):
                    a2 = self.I.concretize_int(W, a)
                    b2 = self.I.concretize_int(W, b)
                    return native(lambda: a2 % b2 if op == "%" else a2 // b2)
            if op in ("+", "-") and (is_strlike(a) or is_strlike(b) or isinstance(a, (list, tuple, dict, type(None))) or isinstance(b, (list, tuple, dict, type(None)))):
                pyraise(TypeError, f"unsupported operand type(s) for {op}: '{model_type(a).__name__}' and '{model_type(b).__name__}'")
            raise Unsupported(f"SInt {op} {type(b)}")
        if is_sym(a) or is_sym(b) or isinstance(a, SSet) or isinstance(b, SSet):
            if op in ("|", "&", "-") and isinstance(a, (SSet, set, frozenset)) and isinstance(b, (SSet, set, frozenset)):
                return self.set_binop(W, op, a, b)
            pyraise(TypeError, f"unsupported operand type(s) for {op}: '{model_type(a).__name__}' and '{model_type(b).__name__}'")
        import operator
        table = {"+": operator.add, "-": operator.sub, "*": operator.mul, "/": operator.truediv, "//": operator.floordiv,
                 "%": operator.mod, "**": operator.pow, "&": operator.and_, "|": operator.or_, "^": operator.xor,
                 "<<": operator.lshift, ">>": operator.rshift, "@": operator.matmul}
        if self._foreign_or_plain(a) and self._foreign_or_plain(b):
            return native(table[op], a, b)
        raise Unsupported(f"binary {op} on {type(a)} / {type(b)}")

    def _foreign_or_plain(self, v):
        return isinstance(v, (int, float, str, bool, list, tuple, set, frozenset, dict, type(None), bytes, complex))

    def set_binop(self, W, op, a, b):
        ia, ib = self.set_items(a), self.set_items(b)
        out = SSet()
        if op == "&":
            for x in ia:
                if self.truth(W, self.set_contains(b, x)):
                    out.items.append(x)
        elif op == "-":
            for x in ia:
                if not self.truth(W, self.set_contains(b, x)):
                    out.items.append(x)
        else:
            out.items = list(ia)
            for x in ib:
                if not self.truth(W, self.set_contains(out, x)):
                    out.items.append(x)
        return out

    # ------------------------------------------------------------------ formatting
    def py_str(self, W, v):
        """str(v) as value or Redirect"""
        if is_strlike(v):
            return mk(chars(v))
        if isinstance(v, SInt):
            return str(self.I.concretize_int(W, v))
        if isinstance(v, SBool):
            return "True" if self.truth(W, v) else "False"
        if isinstance(v, (int, float, type(None), type, bytes, types.FunctionType, types.ModuleType, complex, range)):
            return str(v)
        if isinstance(v, (list, tuple, dict, SSet, set, frozenset)):
            return self.py_repr(W, v)
        if isinstance(v, BaseException):
            f = self.mro_lookup(type(v), "__str__")
            if isinstance(f, types.FunctionType):
                return Redirect(f, (v,))
            if len(v.args) == 0:
                return ""
            if len(v.args) == 1:
                if isinstance(v, KeyError):
                    return self.py_repr(W, v.args[0])
                return self.py_str(W, v.args[0])
            return self.py_repr(W, v.args)
        t = type(v)
        f = self.mro_lookup(t, "__str__")
        if isinstance(f, types.FunctionType):
            return Redirect(f, (v,))
        f = self.mro_lookup(t, "__repr__")
        if isinstance(f, types.FunctionType):
            return Redirect(f, (v,))
        if isinstance(v, (SFunc, BM, BuiltinMethod, NativeBound, SIter, SMatch, SGen, Stub)):
            return f"<{t.__name__}>"
        if self.world_owned_class(t):
            return f"<{t.__module__}.{t.__qualname__} object>"
        return native(str, v)

    def py_repr(self, W, v, depth=0):
        """repr(v); nested user objects are rendered as <Class object> (messages only)"""
        if isinstance(v, str):
            return repr(v)
        if isinstance(v, (SStr, SChar)):
            # approximation: no escaping of the symbolic characters (used in messages only)
            return mk(("'",) + chars(v) + ("'",))
        if isinstance(v, SInt):
            return str(self.I.concretize_int(W, v))
        if isinstance(v, SBool):
            return "True" if self.truth(W, v) else "False"
        if isinstance(v, (list, tuple, SSet, set, frozenset)):
            items = v.items if isinstance(v, SSet) else (list(v) if isinstance(v, (list, tuple)) else sorted(v, key=repr))
            parts = []
            for i, x in enumerate(items):
                if i:
                    parts.extend(", ")
                r = self.py_repr(W, x, depth + 1)
                parts.extend(chars(r))
            if isinstance(v, list):
                o, c = "[", "]"
            elif isinstance(v, tuple):
                o, c = "(", ",)" if len(items) == 1 else ")"
            else:
                if not items:
                    return "set()"
                o, c = "{", "}"
            return mk(tuple(o) + tuple(parts) + tuple(c))
        if isinstance(v, dict):
            parts = []
            for i, (k, x) in enumerate(v.items()):
                if i:
                    parts.extend(", ")
                parts.extend(chars(self.py_repr(W, k, depth + 1)))
                parts.extend(": ")
                parts.extend(chars(self.py_repr(W, x, depth + 1)))
            return mk(("{",) + tuple(parts) + ("}",))
        if isinstance(v, (int, float, type(None), type, bytes, complex, range, types.FunctionType, types.BuiltinFunctionType)):
            return repr(v)
        if isinstance(v, BaseException):
            return mk(tuple(type(v).__name__) + chars(self.py_repr(W, tuple(v.args), depth + 1) if len(v.args) != 1 else
                                                    mk(("(",) + chars(self.py_repr(W, v.args[0], depth + 1)) + (")",))))
        t = type(v)
        if depth == 0:
            f = self.mro_lookup(t, "__repr__")
            if isinstance(f, types.FunctionType):
                return Redirect(f, (v,))
        return f"<{t.__name__} object>"

    def format_str_spec(self, W, v, spec):
        """format(str, spec) for a symbolic string and a concrete spec [[fill]align][width][.precision][s]: CPython validates
        the spec (a sign, '=' alignment, ... raise ValueError for strings) on a stand-in string of the same length"""
        if not isinstance(spec, str):
            spec = self.I.concretize_str(W, spec) if hasattr(self.I, "concretize_str") else None
            if spec is None:
                raise Unsupported("symbolic format spec")
        cs = chars(v)
        try:
            shape = format("\x00" * len(cs), spec)
        except ValueError as ex:
            raise PyRaise(ValueError(str(ex)))
        # the stand-in shows where the (possibly truncated) value sits inside the padding
        n = shape.count("\x00")
        i = shape.index("\x00") if n else len(shape)
        return mk(tuple(shape[:i]) + tuple(cs[:n]) + tuple(shape[i + n:]))

    def format_value(self, W, v, conv, spec):
        if conv == 2:
            r = self.py_repr(W, v)
        elif conv == 3:
            r = self.py_repr(W, v)
        elif conv == 1:
            r = self.py_str(W, v)
        else:
            if spec == "" or spec is None:
                r = self.py_str(W, v)
            else:
                if all_concrete(v, spec) and isinstance(v, (int, float, str)):
                    return native(format, v, spec)
                if is_strlike(v):
                    return self.format_str_spec(W, v, spec)
                raise Unsupported("format spec on symbolic value")
        if isinstance(r, Redirect):
            return r
        if spec not in ("", None):
            if all_concrete(r, spec):
                return native(format, r, spec)
            if is_strlike(r):
                return self.format_str_spec(W, r, spec)
            raise Unsupported("format spec on symbolic value")
        return r

    # ------------------------------------------------------------------ attribute access
    def get_attr(self, W, obj, name, default=MISSING):
        try:
            return self._get_attr(W, obj, name)
        except PyRaise as pr:
            if default is not MISSING and isinstance(pr.exc, AttributeError):
                return default
            raise

    _VALUE_TYPES = (str, SStr, SChar, list, tuple, dict, SSet, set, frozenset, SIter, SMatch, int, bool, float,
                    type(None), SInt, SBool, bytes, range, slice)

    def _get_attr(self, W, obj, name):
        if isinstance(obj, self._VALUE_TYPES) or hasattr(obj, "next_item"):
            mt = model_type(obj)
            if name == "__class__":
                return mt
            if isinstance(obj, SMatch):
                if name in ("group", "start", "end", "span", "groups", "string", "__getitem__", "groupdict", "lastgroup"):
                    if name == "string":
                        return obj.string
                    return BuiltinMethod(obj, name)
                pyraise(AttributeError, name)
            if isinstance(obj, SIter) or hasattr(obj, "next_item"):
                if name in ("__next__", "__iter__"):
                    return BuiltinMethod(obj, name)
                pyraise(AttributeError, name)
            if isinstance(obj, SSet) and name == "__deepcopy__":
                return BuiltinMethod(obj, name)
            if not hasattr(mt, name):
                pyraise(AttributeError, f"'{mt.__name__}' object has no attribute '{name}'")
            if isinstance(obj, slice) and name in ("start", "stop", "step"):
                return getattr(obj, name)
            if isinstance(obj, (int, bool, float)) and name in ("real", "imag", "numerator", "denominator"):
                return getattr(obj, name)
            return BuiltinMethod(obj, name)
        if isinstance(obj, Stub):
            if name in obj.attrs:
                return obj.attrs[name]
            if name in obj.methods:
                return StubMethod(obj, name)
            if name == "log":
                return obj.log
            pyraise(AttributeError, f"stub {obj.stub_name} has no attribute {name}")
        if isinstance(obj, types.ModuleType):
            return native(getattr, obj, name)
        if isinstance(obj, (types.FunctionType, types.BuiltinFunctionType, types.CodeType, property)):
            return native(getattr, obj, name)
        if isinstance(obj, SFunc):
            if name in ("__name__", "__qualname__"):
                return obj.name
            pyraise(AttributeError, name)
        if isinstance(obj, (BM, BuiltinMethod, NativeBound, StubMethod, SGen, Cell)):
            if isinstance(obj, BM) and name == "__self__":
                return obj.self
            if isinstance(obj, BM) and name == "__func__":
                return obj.func
            pyraise(AttributeError, name)
        if isinstance(obj, type):
            return self.class_attr(W, obj, name)
        return self.instance_attr(W, obj, name)

    def class_attr(self, W, cls, name):
        if name in ("__name__", "__qualname__", "__module__", "__mro__", "__dict__", "__doc__", "__bases__", "__class__"):
            return getattr(cls, name)
        raw = self.mro_lookup(cls, name)
        if raw is None:
            # metaclass attributes (e.g. ABCMeta.register) are not needed
            if hasattr(cls, name):
                v = getattr(cls, name)
                return v
            pyraise(AttributeError, f"type object '{cls.__name__}' has no attribute '{name}'")
        if isinstance(raw, classmethod):
            return BM(raw.__func__, cls)
        if isinstance(raw, staticmethod):
            return raw.__func__
        if isinstance(raw, (types.FunctionType, property)):
            return raw
        if isinstance(raw, (types.MethodDescriptorType, types.WrapperDescriptorType, types.BuiltinFunctionType,
                            types.ClassMethodDescriptorType)):
            return getattr(cls, name)
        return raw

    def instance_attr(self, W, obj, name):
        t = type(obj)
        if name == "__class__":
            return t
        if name == "__dict__":
            try:
                return obj.__dict__
            except AttributeError as e:
                raise PyRaise(e)
        owned = self.world_owned_class(t)
        raw = self.mro_lookup(t, name)
        if not owned:
            return self.foreign_attr(W, obj, name, raw)
        if raw is not None:
            if isinstance(raw, property):
                if raw.fget is None:
                    pyraise(AttributeError, f"unreadable attribute {name}")
                return Redirect(raw.fget, (obj,))
            if isinstance(raw, (types.GetSetDescriptorType, types.MemberDescriptorType)):
                return native(getattr, obj, name)
        d = getattr(obj, "__dict__", None)
        if d is not None and name in d:
            return d[name]
        if raw is None:
            ga = self.mro_lookup(t, "__getattr__")
            if ga is not None:
                raise Unsupported("__getattr__")
            pyraise(AttributeError, f"'{t.__name__}' object has no attribute '{name}'")
        if isinstance(raw, types.FunctionType):
            return BM(raw, obj)
        if isinstance(raw, classmethod):
            return BM(raw.__func__, t)
        if isinstance(raw, staticmethod):
            return raw.__func__
        if isinstance(raw, (types.MethodDescriptorType, types.WrapperDescriptorType)):
            return NativeBound(obj, name)
        if hasattr(raw, "__get__") and not isinstance(raw, (type,)):
            if isinstance(raw, (types.BuiltinFunctionType,)):
                return raw
            raise Unsupported(f"descriptor {type(raw)} for {name}")
        return raw

    def foreign_attr(self, W, obj, name, raw):
        if isinstance(obj, re.Pattern):
            if name in ("finditer", "match", "search", "fullmatch", "split", "findall", "sub", "subn"):
                return NativeBound(obj, name)
            if name in ("pattern", "flags", "groups", "groupindex"):
                return getattr(obj, name)
        m = self.eng.foreign_models.get((type(obj), name))
        if m is None:
            for (k, n), mm in self.eng.foreign_models.items():
                if n == name and isinstance(obj, k):
                    m = mm
                    break
        if m is not None:
            return NativeBound(obj, name)
        if isinstance(obj, logging.Logger):
            return NativeBound(obj, name)
        raise Unsupported(f"attribute {name} of foreign object {type(obj)}")

    def super_attr(self, W, cls, self_, name):
        t = self_ if isinstance(self_, type) else type(self_)
        mro = t.__mro__
        try:
            i = mro.index(cls)
        except ValueError:
            pyraise(TypeError, "super(type, obj): obj must be an instance or subtype of type")
        for k in mro[i + 1:]:
            if name in k.__dict__:
                raw = k.__dict__[name]
                if isinstance(raw, types.FunctionType):
                    return BM(raw, self_)
                if isinstance(raw, classmethod):
                    return BM(raw.__func__, t)
                if isinstance(raw, staticmethod):
                    return raw.__func__
                if isinstance(raw, property):
                    raise Unsupported("super().property")
                if isinstance(raw, (types.MethodDescriptorType, types.WrapperDescriptorType)):
                    return NativeBound(self_, name, via=cls)
                return raw
        pyraise(AttributeError, f"'super' object has no attribute '{name}'")

    def set_attr(self, W, obj, name, val):
        if isinstance(obj, Stub):
            obj.attrs[name] = val
            W.mut += 1
            return None
        t = type(obj)
        if isinstance(obj, type) or not hasattr(obj, "__dict__"):
            raise Unsupported(f"STORE_ATTR on {t}")
        if not self.world_owned_class(t):
            raise Unsupported(f"STORE_ATTR on foreign {t}")
        raw = self.mro_lookup(t, name)
        if isinstance(raw, property):
            if raw.fset is None:
                pyraise(AttributeError, f"property '{name}' of '{t.__name__}' object has no setter")
            return Redirect(raw.fset, (obj, val), ret="discard")
        if isinstance(raw, (types.GetSetDescriptorType, types.MemberDescriptorType)):
            native(setattr, obj, name, val)
            W.mut += 1
            return None
        if dataclasses.is_dataclass(t) and getattr(t, "__dataclass_params__").frozen:
            pyraise(dataclasses.FrozenInstanceError, name)
        obj.__dict__[name] = val
        W.mut += 1
        return None

    # ------------------------------------------------------------------ classes
    def class_model(self, cls):
        return self._class_models().get(cls)

    def construct_foreign(self, W, cls, args, kwargs):
        m = self.eng.class_models.get(cls)
        if m is not None:
            return m(self.I, W, args, kwargs)
        import operator
        import functools
        if cls in (operator.itemgetter, operator.attrgetter, functools.partial, re.Pattern) and all_concrete(*[a for a in args if not callable(a)]):
            return native(cls, *args, **kwargs)
        raise Unsupported(f"constructor of foreign class {cls}")

    def _class_models(self):
        if hasattr(self, "_cm"):
            return self._cm
        M = self

        def m_list(W, cls, a, k):
            return M.iter_to_list(W, a[0]) if a else []

        def m_tuple(W, cls, a, k):
            return tuple(M.iter_to_list(W, a[0])) if a else ()

        def m_dict(W, cls, a, k):
            d = cls()
            if a:
                src = a[0]
                if isinstance(src, dict):
                    for kk, v in src.items():
                        M.dict_set(W, d, kk, v)
                else:
                    for pair in M.iter_to_list(W, src):
                        kk, v = M.iter_to_list(W, pair)
                        M.dict_set(W, d, kk, v)
            for kk, v in k.items():
                d[kk] = v
            return d

        def m_set(W, cls, a, k):
            return M.make_set(W, M.iter_to_list(W, a[0])) if a else SSet()

        def m_frozenset(W, cls, a, k):
            items = M.iter_to_list(W, a[0]) if a else []
            if all_concrete(*items):
                return frozenset(items)
            return M.make_set(W, items)

        def m_str(W, cls, a, k):
            if not a:
                return ""
            return M.py_str(W, a[0])

        def m_int(W, cls, a, k):
            if not a:
                return 0
            v = a[0]
            if isinstance(v, SInt):
                return v
            if is_strlike(v) and len(a) == 1:
                s = M.I.concretize_str(W, v)
                return native(int, s)
            if isinstance(v, SBool):
                return 1 if M.truth(W, v) else 0
            return native(int, *a, **k)

        def m_bool(W, cls, a, k):
            if not a:
                return False
            if isinstance(a[0], SBool):
                return a[0]
            return M.truth(W, a[0])

        def m_float(W, cls, a, k):
            if a and is_sym(a[0]):
                raise Unsupported("float(symbolic)")
            return native(float, *a)

        def m_object(W, cls, a, k):
            return object()

        def m_type(W, cls, a, k):
            if len(a) == 1:
                return model_type(a[0])
            raise Unsupported("type(name, bases, dict)")

        def m_range(W, cls, a, k):
            return native(range, *[M.I.concretize_int(W, x) for x in a])

        def m_enumerate(W, cls, a, k):
            start = k.get("start", a[1] if len(a) > 1 else 0)
            return SIter([(i + start, x) for i, x in enumerate(M.iter_to_list(W, a[0]))])

        def m_zip(W, cls, a, k):
            return SIter(list(zip(*[M.iter_to_list(W, x) for x in a])))

        def m_reversed(W, cls, a, k):
            return SIter(list(reversed(M.iter_to_list(W, a[0]))))

        def m_slice(W, cls, a, k):
            return slice(*a)

        def m_super(W, cls, a, k):
            raise Unsupported("explicit super(...) object")

        def m_map(W, cls, a, k):
            from . import prelude
            return Redirect(prelude._map, a)

        def m_filter(W, cls, a, k):
            from . import prelude
            return Redirect(prelude._filter, a)

        self._cm = {list: m_list, tuple: m_tuple, dict: m_dict, collections.OrderedDict: m_dict, set: m_set,
                    frozenset: m_frozenset, str: m_str, int: m_int, bool: m_bool, float: m_float, object: m_object,
                    type: m_type, range: m_range, enumerate: m_enumerate, zip: m_zip, reversed: m_reversed,
                    slice: m_slice, super: m_super, map: m_map, filter: m_filter}
        return self._cm

    # ------------------------------------------------------------------ calls of native things
    _GEN_CONSUMERS = None

    def call_native(self, W, fn, args, kwargs):
        if isinstance(fn, BuiltinMethod):
            if any(isinstance(a, SGen) for a in args):
                from . import prelude
                return Redirect(prelude._materialize_call, (fn, tuple(args), dict(kwargs)))
            return self.call_method(W, fn.obj, fn.name, args, kwargs)
        if isinstance(fn, StubMethod):
            return fn.obj.methods[fn.name](self.I, W, fn.obj, args, kwargs)
        if isinstance(fn, NativeBound):
            return self.call_native_bound(W, fn, args, kwargs)
        if isinstance(fn, (types.BuiltinFunctionType, types.BuiltinMethodType)):
            m = self.builtin_table.get(fn)
            if m is None:
                m = self.eng.native_models.get(fn)
                if m is not None:
                    return m(self.I, W, args, kwargs)
                if getattr(fn, "__module__", None) in ("_codecs", "codecs", "math", "unicodedata", "_operator", "operator", "_string") \
                        and all_concrete(*args) and all_concrete(*kwargs.values()) and not isinstance(getattr(fn, "__self__", None), (list, dict, set)):
                    return native(fn, *args, **kwargs)
                raise Unsupported(f"builtin {fn}")
            if any(isinstance(a, SGen) for a in args) and fn not in (builtins.any, builtins.all, builtins.isinstance, builtins.id, builtins.next, builtins.iter):
                from . import prelude
                return Redirect(prelude._materialize_call, (fn, tuple(args), dict(kwargs)))
            return m(W, args, kwargs)
        if isinstance(fn, Stub) and "__call__" in fn.methods:
            return fn.methods["__call__"](self.I, W, fn, args, kwargs)
        m = self.eng.native_models.get(fn) if self._hashable(fn) else None
        if m is not None:
            return m(self.I, W, args, kwargs)
        if isinstance(fn, types.MethodDescriptorType) and getattr(fn, "__objclass__", None) in (list, dict, set, frozenset, str, tuple) and args:
            # unbound method of a builtin type called with the receiver first, e.g. list.copy(x) (used by copy.copy)
            return self.call_method(W, args[0], fn.__name__, tuple(args[1:]), kwargs)
        if isinstance(fn, (types.MethodWrapperType, types.MethodDescriptorType, types.WrapperDescriptorType)):
            raise Unsupported(f"native slot call {fn}")
        import functools
        import operator
        if isinstance(fn, (operator.itemgetter, operator.attrgetter)):
            return native(fn, *args)
        if isinstance(fn, functools._lru_cache_wrapper):
            # the cache is modelled per world (a list of (args, kwargs, result)); lookups compare arguments the way a dict
            # key comparison would (identity for objects without __eq__, value equality for strings / numbers / tuples)
            from . import prelude
            cache = W.tags.setdefault(("lru", id(fn)), [])
            return Redirect(prelude._lru_call, (cache, fn.__wrapped__, tuple(args), dict(kwargs)))
        if isinstance(fn, functools.partial):
            return Redirect(fn.func, tuple(fn.args) + tuple(args), {**fn.keywords, **kwargs})
        if callable(fn) and not isinstance(fn, (SStr, SChar, SBool, SInt, SSet)):
            raise Unsupported(f"call of unmodelled callable {type(fn).__name__}")
        pyraise(TypeError, f"'{model_type(fn).__name__}' object is not callable")

    @staticmethod
    def _hashable(x):
        try:
            hash(x)
            return True
        except TypeError:
            return False

    def call_native_bound(self, W, nb, args, kwargs):
        obj, name = nb.obj, nb.name
        m = self.eng.foreign_models.get((type(obj), name))
        if m is None:
            for (k, n), mm in self.eng.foreign_models.items():
                if n == name and isinstance(obj, k):
                    m = mm
                    break
        if m is not None:
            return m(self.I, W, obj, args, kwargs)
        if isinstance(obj, logging.Logger):
            return None
        if isinstance(obj, re.Pattern):
            from .regex import regex_once, SFindIter, regex_split, regex_findall, regex_sub
            flags = obj.flags & ~re.UNICODE
            if name == "finditer":
                if len(args) > 2 or "endpos" in kwargs:
                    raise Unsupported("re.Pattern.finditer with endpos")
                it = SFindIter(obj.pattern, args[0], int(flags))
                pos = args[1] if len(args) > 1 else kwargs.get("pos", 0)
                if not isinstance(pos, int):
                    pos = self.I.concretize_int(W, pos)
                # pos does not slice the string: '^' and look-behind still see what stands before it
                it.pos = min(max(int(pos), 0), len(chars(args[0])))
                return it
            pos = 0
            if name in ("match", "search", "fullmatch", "findall") and (len(args) > 1 or kwargs):
                if name == "findall" or len(args) > 2 or "endpos" in kwargs:
                    raise Unsupported(f"re.Pattern.{name} with pos / endpos")
                pos = args[1] if len(args) > 1 else kwargs.get("pos", 0)
                if not isinstance(pos, int):
                    pos = self.I.concretize_int(W, pos)
            if name == "split":
                return regex_split(self.I, W, obj, args[0], int(args[1] if len(args) > 1 else kwargs.get("maxsplit", 0)))
            if name == "findall":
                return regex_findall(self.I, W, obj, args[0])
            if name in ("sub", "subn"):
                return regex_sub(self.I, W, obj, args[0], args[1], int(args[2] if len(args) > 2 else kwargs.get("count", 0)), 0, name == "subn")
            if name not in ("match", "search", "fullmatch"):
                raise Unsupported(f"re.Pattern.{name}")
            return regex_once(self.I, W, name, obj.pattern, args[0], int(flags), int(pos))
        if nb.via is not None:
            # super().__init__ etc. resolved on a builtin base
            target = getattr(super(nb.via, obj), name)
            if name == "__init__":
                if isinstance(obj, BaseException):
                    if kwargs:
                        pyraise(TypeError, f"{type(obj).__name__}() takes no keyword arguments")
                    obj.args = tuple(args)
                    W.mut += 1
                    return None
                if args or kwargs:
                    pyraise(TypeError, "object.__init__() takes exactly one argument (the instance to initialize)")
                return None
            raise Unsupported(f"super().{name} on builtin base")
        if name in ("__reduce_ex__", "__reduce__", "__getstate__", "__setstate__", "with_traceback", "__init_subclass__",
                    "__sizeof__", "__dir__", "add_note"):
            r = native(getattr(obj, name), *args, **kwargs)
            W.mut += 1
            return r
        if name == "__init__" and isinstance(obj, BaseException):
            obj.args = tuple(args)
            return None
        if name in ("__str__", "__repr__"):
            return self.py_str(W, obj) if name == "__str__" else self.py_repr(W, obj)
        if name == "__eq__":
            return obj is args[0]
        if name == "__ne__":
            return obj is not args[0]
        if name == "__hash__":
            return self.logical_id(W, obj)
        raise Unsupported(f"native method {name} of {type(obj)}")

    def logical_id(self, W, x):
        if isinstance(x, (list, dict, set, SSet)) or isinstance(x, BaseException) or getattr(type(x), "_mutable_", False) \
                or (hasattr(x, "__dict__") and not isinstance(x, (type, types.FunctionType, types.ModuleType)) and self.world_owned_class(type(x))):
            ent = W.idtab.get(id(x))
            if ent is None or ent[1] is not x:
                ent = W.idtab[id(x)] = (W.next_lid, x)
                W.next_lid += 1
            return -ent[0]  # negative: cannot collide with real ids
        return id(x)

    def call_python_function(self, W, fn, args, kwargs):
        m = self.pyfunc_table.get(fn)
        if m is not None:
            return m(W, args, kwargs)
        raise Unsupported(f"call of non-interpreted python function {fn.__module__}.{fn.__qualname__}")

    def _pyfunc_table(self):
        M = self

        def noop(W, a, k):
            return None

        def m_finditer(W, a, k):
            from .regex import SFindIter
            pattern = a[0]
            s = a[1]
            flags = a[2] if len(a) > 2 else k.get("flags", 0)
            if isinstance(s, str):
                s = SStr(tuple(s)) if False else s
            return SFindIter(pattern, s, int(flags))

        def m_is_dataclass(W, a, k):
            return dataclasses.is_dataclass(a[0])

        def m_re(kind):
            def f(W, a, k):
                from .regex import regex_once
                flags = a[2] if len(a) > 2 else k.get("flags", 0)
                return regex_once(M.I, W, kind, a[0], a[1], int(flags))
            return f

        def m_compile(W, a, k):
            return native(re.compile, *a, **k)

        def m_split(W, a, k):
            from .regex import regex_split
            return regex_split(M.I, W, a[0], a[1], int(a[2] if len(a) > 2 else k.get("maxsplit", 0)), int(a[3] if len(a) > 3 else k.get("flags", 0)))

        def m_findall(W, a, k):
            from .regex import regex_findall
            return regex_findall(M.I, W, a[0], a[1], int(a[2] if len(a) > 2 else k.get("flags", 0)))

        def m_sub(want_n):
            def f(W, a, k):
                from .regex import regex_sub
                return regex_sub(M.I, W, a[0], a[1], a[2], int(a[3] if len(a) > 3 else k.get("count", 0)),
                                 int(a[4] if len(a) > 4 else k.get("flags", 0)), want_n)
            return f

        t = {warnings.warn: noop, re.finditer: m_finditer, dataclasses.is_dataclass: m_is_dataclass,
             re.match: m_re("match"), re.search: m_re("search"), re.fullmatch: m_re("fullmatch"), re.compile: m_compile,
             re.split: m_split, re.findall: m_findall, re.sub: m_sub(False), re.subn: m_sub(True)}
        for nm in ("debug", "info", "warning", "error", "critical", "exception", "log"):
            t[getattr(logging, nm)] = noop
        return t

    # ------------------------------------------------------------------ builtin functions
    def _builtin_table(self):
        M = self
        I = self.I

        def b_len(W, a, k):
            v = a[0]
            if isinstance(v, (str, list, tuple, dict, set, frozenset, range, bytes)):
                return len(v)
            if isinstance(v, SStr):
                return len(v.cs)
            if isinstance(v, SChar):
                return 1
            if isinstance(v, SSet):
                return len(v.items)
            f = M.mro_lookup(type(v), "__len__")
            if isinstance(f, types.FunctionType):
                return Redirect(f, (v,))
            pyraise(TypeError, f"object of type '{model_type(v).__name__}' has no len()")

        def b_isinstance(W, a, k):
            v, c = a
            return native(lambda: issubclass(model_type(v), c) or (not is_sym(v) and not isinstance(v, SSet) and isinstance(v, c)))

        def b_issubclass(W, a, k):
            return native(issubclass, *a)

        def b_iter(W, a, k):
            return M.get_iter(W, a[0])

        def b_next(W, a, k):
            it = a[0]
            if isinstance(it, SGen):
                from . import prelude
                return Redirect(prelude._next_gen, (it, a[1] if len(a) > 1 else None, len(a) > 1))
            ok, v = M.iter_next(W, it)
            if ok:
                return v
            if len(a) > 1:
                return a[1]
            raise PyRaise(StopIteration())

        def b_sorted(W, a, k):
            from . import prelude
            items = M.iter_to_list(W, a[0])
            key = k.get("key")
            if key is None and all_concrete(*items):
                return native(sorted, items, reverse=bool(k.get("reverse", False)))
            return Redirect(prelude._sorted, (items, key, k.get("reverse", False)))

        def b_any(W, a, k):
            from . import prelude
            return Redirect(prelude._any, (a[0],))

        def b_all(W, a, k):
            from . import prelude
            return Redirect(prelude._all, (a[0],))

        def b_minmax(which):
            def f(W, a, k):
                items = M.iter_to_list(W, a[0]) if len(a) == 1 else list(a)
                if not k and all_concrete(*items):
                    return native(which, items)
                from . import prelude
                if not items:
                    if "default" in k:
                        return k["default"]
                    pyraise(ValueError, "arg is an empty sequence")
                return Redirect(prelude._minmax, (items, k.get("key"), which is max))
            return f

        def b_sum(W, a, k):
            items = M.iter_to_list(W, a[0])
            r = a[1] if len(a) > 1 else 0
            for x in items:
                r = M.binary(W, "+", r, x)
            return r

        def b_getattr(W, a, k):
            if not isinstance(a[1], str):
                raise Unsupported("getattr with symbolic name")
            if len(a) > 2:
                return M.get_attr(W, a[0], a[1], a[2])
            return M.get_attr(W, a[0], a[1])

        def b_hasattr(W, a, k):
            try:
                M.get_attr(W, a[0], a[1])
                return True
            except PyRaise as pr:
                if isinstance(pr.exc, AttributeError):
                    return False
                raise

        def b_setattr(W, a, k):
            r = M.set_attr(W, a[0], a[1], a[2])
            if isinstance(r, Redirect):
                r.ret = ("const", None)
                return r
            return None

        def b_id(W, a, k):
            return M.logical_id(W, a[0])

        def b_callable(W, a, k):
            v = a[0]
            return isinstance(v, (SFunc, BM, BuiltinMethod, NativeBound, StubMethod)) or (not is_sym(v) and callable(v))

        def b_repr(W, a, k):
            return M.py_repr(W, a[0])

        def b_format(W, a, k):
            return M.format_value(W, a[0], 0, a[1] if len(a) > 1 else "")

        def b_print(W, a, k):
            return None

        def b_abs(W, a, k):
            if isinstance(a[0], SInt):
                raise Unsupported("abs(SInt)")
            return native(abs, a[0])

        def b_ord(W, a, k):
            c = a[0]
            if isinstance(c, SStr) and len(c.cs) == 1:
                c = c.cs[0]
            if isinstance(c, SChar):
                return ord(I.concretize_char(W, c))
            return native(ord, c)

        def b_chr(W, a, k):
            return native(chr, I.concretize_int(W, a[0]))

        def b_hash(W, a, k):
            v = a[0]
            if is_sym(v):
                raise Unsupported("hash of symbolic value")
            if isinstance(v, (int, str, tuple, type(None), float, frozenset, type, bytes)):
                return native(hash, v)
            return M.logical_id(W, v)

        def b_divmod(W, a, k):
            return native(divmod, I.concretize_int(W, a[0]), I.concretize_int(W, a[1]))

        def b_object_new(W, a, k):
            cls = a[0]
            if not M.world_owned_class(cls):
                raise Unsupported(f"object.__new__ of foreign {cls}")
            return native(object.__new__, cls)

        def b_vars(W, a, k):
            return M.get_attr(W, a[0], "__dict__")

        def b_open(W, a, k):
            h = getattr(M.eng, "open_handler", None)
            if h is None:
                raise Unsupported("open() without a harness stub")
            return h(I, W, a, k)

        t = {builtins.len: b_len, builtins.isinstance: b_isinstance, builtins.issubclass: b_issubclass,
             builtins.iter: b_iter, builtins.next: b_next, builtins.sorted: b_sorted, builtins.any: b_any,
             builtins.all: b_all, builtins.max: b_minmax(max), builtins.min: b_minmax(min), builtins.sum: b_sum,
             builtins.getattr: b_getattr, builtins.hasattr: b_hasattr, builtins.setattr: b_setattr,
             builtins.id: b_id, builtins.callable: b_callable, builtins.repr: b_repr, builtins.format: b_format,
             builtins.print: b_print, builtins.abs: b_abs, builtins.ord: b_ord, builtins.chr: b_chr,
             builtins.hash: b_hash, builtins.divmod: b_divmod, object.__new__: b_object_new, builtins.vars: b_vars,
             builtins.open: b_open, warnings.warn: (lambda W, a, k: None)}
        return t

    # ------------------------------------------------------------------ methods of modelled values
    def call_method(self, W, obj, name, args, kwargs):
        if is_strlike(obj):
            return self.str_method(W, obj, name, args, kwargs)
        if isinstance(obj, list):
            return self.list_method(W, obj, name, args, kwargs)
        if isinstance(obj, tuple):
            return self.tuple_method(W, obj, name, args, kwargs)
        if isinstance(obj, dict):
            return self.dict_method(W, obj, name, args, kwargs)
        if isinstance(obj, (SSet, set, frozenset)):
            return self.set_method(W, obj, name, args, kwargs)
        if isinstance(obj, SMatch):
            return self.match_method(W, obj, name, args, kwargs)
        if isinstance(obj, SIter) or hasattr(obj, "next_item"):
            if name == "__iter__":
                return obj
            if name == "__next__":
                ok, v = self.iter_next(W, obj)
                if ok:
                    return v
                raise PyRaise(StopIteration())
        if isinstance(obj, (int, bool, float, type(None), bytes, range)) and not is_sym(obj):
            if all_concrete(*args):
                return native(getattr(obj, name), *args, **kwargs)
        raise Unsupported(f"method {name} of {type(obj)}")

    # ---- str
    def _char_in(self, c, pool):
        return b_any(ch_eq(c, p) for p in chars(pool))

    def str_method(self, W, s, name, a, k):
        I = self.I
        cs = chars(s)
        concrete = isinstance(s, str) and all_concrete(*a) and all_concrete(*k.values())
        if name == "join":
            items = self.iter_to_list(W, a[0])
            out = []
            for i, it in enumerate(items):
                if not is_strlike(it):
                    pyraise(TypeError, f"sequence item {i}: expected str instance, {model_type(it).__name__} found")
                if i:
                    out.extend(cs)
                out.extend(chars(it))
            return mk(out)
        if concrete:
            f = getattr(s, name)
            return native(f, *a, **k)
        if name in ("strip", "lstrip", "rstrip"):
            pool = a[0] if a and a[0] is not None else None
            if pool is None:
                test = lambda c: (c.isspace() if isinstance(c, str) else c.pred(str.isspace))
            else:
                test = lambda c: self._char_in(c, pool)
            lo, hi = 0, len(cs)
            if name != "rstrip":
                while lo < hi and self.truth(W, test(cs[lo])):
                    lo += 1
            if name != "lstrip":
                while hi > lo and self.truth(W, test(cs[hi - 1])):
                    hi -= 1
            return mk(cs[lo:hi])
        if name in ("startswith", "endswith"):
            pre = a[0]
            alts = pre if isinstance(pre, tuple) else (pre,)
            if len(a) > 1:
                raise Unsupported("startswith with offsets")
            r = False
            for p in alts:
                pc = chars(p)
                if len(pc) > len(cs):
                    continue
                seg = cs[:len(pc)] if name == "startswith" else cs[len(cs) - len(pc):]
                r = b_or(r, s_eq(mk(seg), mk(pc)))
            return r
        if name in ("lower", "upper", "casefold", "swapcase"):
            f = getattr(str, name)
            out = []
            for c in cs:
                if isinstance(c, str):
                    out.extend(f(c))
                    continue
                odd = [b for b in c.var.alpha if len(f(c.value_of(b))) != 1]
                done = False
                for b in odd:
                    # a character whose case mapping changes the length (e.g. U+0130): decide it concretely
                    if self.truth(W, c.eq(c.value_of(b))):
                        out.extend(f(c.value_of(b)))
                        done = True
                        break
                if not done:
                    out.append(c.map(lambda ch: f(ch) if len(f(ch)) == 1 else ch))
            return mk(out)
        if name in ("capitalize", "title"):
            if name == "capitalize":
                out = []
                for i, c in enumerate(cs):
                    f = str.upper if i == 0 else str.lower
                    out.append(f(c) if isinstance(c, str) else c.map(f))
                return mk(out)
            raise Unsupported("title on symbolic")
        if name in ("isdigit", "isalpha", "isupper", "islower", "isspace", "isalnum", "isdecimal", "isnumeric", "isascii", "isidentifier", "isprintable"):
            if name in ("isupper", "islower", "isidentifier"):
                if len(cs) == 1:
                    c = cs[0]
                    return c.pred(getattr(str, name))
                if name == "isidentifier":
                    first = cs[0].isidentifier() if isinstance(cs[0], str) else cs[0].pred(str.isidentifier, "isidentifier")
                    rest = b_all((("a" + c).isidentifier() if isinstance(c, str) else c.pred(lambda ch: ("a" + ch).isidentifier(), "isidcont")) for c in cs[1:])
                    return b_and(first, rest)
                # cased-ness: all cased chars are upper and there is at least one cased char
                f_ok = (lambda ch: not ch.islower()) if name == "isupper" else (lambda ch: not ch.isupper())
                f_cased = (lambda ch: ch.isupper()) if name == "isupper" else (lambda ch: ch.islower())
                allok = b_all((f_ok(c) if isinstance(c, str) else c.pred(f_ok)) for c in cs)
                some = b_any((f_cased(c) if isinstance(c, str) else c.pred(f_cased)) for c in cs)
                return b_and(allok, some)
            if len(cs) == 0:
                return name in ("isascii", "isprintable")
            f = getattr(str, name)
            return b_all((f(c) if isinstance(c, str) else c.pred(f)) for c in cs)
        if name == "splitlines":
            keep = bool(a[0]) if a else bool(k.get("keepends", False))
            sur = []
            for c in cs:
                if isinstance(c, str):
                    sur.append(c)
                    continue
                if self.truth(W, c.eq("\n")):
                    sur.append("\n")
                elif self.truth(W, c.eq("\r")):
                    sur.append("\r")
                elif self.truth(W, c.pred(lambda ch: len(("a" + ch + "b").splitlines()) > 1)):
                    sur.append("\x0b")
                else:
                    sur.append("x")
            pieces = "".join(sur).splitlines(True)
            out, pos = [], 0
            for p in pieces:
                body = len(p.splitlines()[0]) if p.splitlines() else 0
                out.append(mk(cs[pos:pos + (len(p) if keep else body)]))
                pos += len(p)
            return out
        if name in ("partition", "rpartition"):
            sc = chars(a[0])
            if len(sc) == 0:
                pyraise(ValueError, "empty separator")
            rng = range(0, len(cs) - len(sc) + 1)
            if name == "rpartition":
                rng = reversed(rng)
            for i in rng:
                if self.truth(W, s_eq(mk(cs[i:i + len(sc)]), a[0])):
                    return (mk(cs[:i]), mk(cs[i:i + len(sc)]), mk(cs[i + len(sc):]))
            return (s, "", "") if name == "partition" else ("", "", s)
        if name in ("removeprefix", "removesuffix"):
            pc = chars(a[0])
            if len(pc) == 0 or len(pc) > len(cs):
                return s
            if name == "removeprefix":
                return mk(cs[len(pc):]) if self.truth(W, s_eq(mk(cs[:len(pc)]), a[0])) else s
            return mk(cs[:-len(pc)]) if self.truth(W, s_eq(mk(cs[-len(pc):]), a[0])) else s
        if name in ("ljust", "rjust", "center", "zfill"):
            width = I.concretize_int(W, a[0])
            fill = "0" if name == "zfill" else (a[1] if len(a) > 1 else " ")
            if name == "zfill" or not isinstance(fill, str):
                if name == "zfill" and len(cs) and isinstance(cs[0], str) and cs[0] not in "+-":
                    return mk(tuple("0" * max(width - len(cs), 0)) + tuple(cs))
                raise Unsupported(f"str.{name} on this symbolic string")
            pad = max(width - len(cs), 0)
            if name == "ljust":
                return mk(tuple(cs) + tuple(fill * pad))
            if name == "rjust":
                return mk(tuple(fill * pad) + tuple(cs))
            left = pad // 2 + (pad & width & 1)
            return mk(tuple(fill * left) + tuple(cs) + tuple(fill * (pad - left)))
        if name in ("split", "rsplit") and (len(a) > 1 or "maxsplit" in k or name == "rsplit"):
            sep = a[0] if a else k.get("sep")
            maxsplit = I.concretize_int(W, a[1] if len(a) > 1 else k.get("maxsplit", -1))
            if sep is None:
                raise Unsupported("whitespace split with maxsplit on symbolic string")
            sc = chars(sep)
            if len(sc) == 0:
                pyraise(ValueError, "empty separator")
            pieces = []
            if name == "split":
                cur, i, n = [], 0, 0
                while i < len(cs):
                    if (maxsplit < 0 or n < maxsplit) and i + len(sc) <= len(cs) and self.truth(W, s_eq(mk(cs[i:i + len(sc)]), sep)):
                        pieces.append(mk(cur)); cur = []; i += len(sc); n += 1
                    else:
                        cur.append(cs[i]); i += 1
                pieces.append(mk(cur))
                return pieces
            end, i, n = len(cs), len(cs) - len(sc), 0
            while i >= 0:
                if (maxsplit < 0 or n < maxsplit) and self.truth(W, s_eq(mk(cs[i:i + len(sc)]), sep)):
                    pieces.append(mk(cs[i + len(sc):end])); end = i; i -= len(sc); n += 1
                else:
                    i -= 1
            pieces.append(mk(cs[:end]))
            pieces.reverse()
            return pieces
        if name == "split":
            sep = a[0] if a else k.get("sep")
            if sep is None:
                out, cur = [], []
                for c in cs:
                    if self.truth(W, c.isspace() if isinstance(c, str) else c.pred(str.isspace)):
                        if cur:
                            out.append(mk(cur)); cur = []
                    else:
                        cur.append(c)
                if cur:
                    out.append(mk(cur))
                return out
            sc = chars(sep)
            if len(sc) == 0:
                pyraise(ValueError, "empty separator")
            out, cur, i = [], [], 0
            while i < len(cs):
                if i + len(sc) <= len(cs) and self.truth(W, s_eq(mk(cs[i:i + len(sc)]), sep)):
                    out.append(mk(cur)); cur = []
                    i += len(sc)
                else:
                    cur.append(cs[i]); i += 1
            out.append(mk(cur))
            return out
        if name == "replace":
            old, new = a[0], a[1]
            limit = I.concretize_int(W, a[2]) if len(a) > 2 else -1
            oc, nc = chars(old), chars(new)
            if len(oc) == 0:
                raise Unsupported("replace of empty string")
            out, i, done = [], 0, 0
            while i < len(cs):
                if (limit < 0 or done < limit) and i + len(oc) <= len(cs) and self.truth(W, s_eq(mk(cs[i:i + len(oc)]), old)):
                    out.extend(nc); i += len(oc); done += 1
                else:
                    out.append(cs[i]); i += 1
            return mk(out)
        if name in ("find", "index", "rfind", "rindex"):
            sub = chars(a[0])
            lo = 0 if len(a) < 2 or a[1] is None else I.concretize_int(W, a[1])
            hi = len(cs) if len(a) < 3 or a[2] is None else I.concretize_int(W, a[2])
            lo, hi, _ = slice(lo, hi).indices(len(cs))
            rng = range(lo, hi - len(sub) + 1)
            if name.startswith("r"):
                rng = reversed(rng)
            for i in rng:
                if self.truth(W, s_eq(mk(cs[i:i + len(sub)]), mk(sub))):
                    return i
            if name.endswith("index"):
                pyraise(ValueError, "substring not found")
            return -1
        if name == "count":
            sub = chars(a[0])
            lo = 0 if len(a) < 2 or a[1] is None else I.concretize_int(W, a[1])
            hi = len(cs) if len(a) < 3 or a[2] is None else I.concretize_int(W, a[2])
            if lo > len(cs):
                return 0            # CPython: a start beyond the end finds nothing, not even the empty string
            lo, hi, _ = slice(lo, hi).indices(len(cs))
            if len(a) > 1:
                if lo > hi:
                    return 0
                cs = cs[lo:hi]
            if len(sub) == 0:
                return len(cs) + 1
            n, i = 0, 0
            while i + len(sub) <= len(cs):
                if self.truth(W, s_eq(mk(cs[i:i + len(sub)]), mk(sub))):
                    n += 1; i += len(sub)
                else:
                    i += 1
            return n
        if name == "format":
            fmt = s
            if not isinstance(fmt, str):
                raise Unsupported("symbolic format string")
            out = []
            auto = 0
            for lit, field, spec, conv in native(lambda: list(_string.Formatter().parse(fmt))):
                out.extend(lit)
                if field is None:
                    continue
                if spec:
                    raise Unsupported("format spec")
                if field == "":
                    v = a[auto]; auto += 1
                elif field.isdigit():
                    v = a[int(field)]
                elif field in k:
                    v = k[field]
                else:
                    raise Unsupported(f"format field {field}")
                r = self.py_repr(W, v) if conv == "r" else self.py_str(W, v)
                if isinstance(r, Redirect):
                    raise Unsupported("format of object with __str__")
                out.extend(chars(r))
            return mk(out)
        if name == "__len__":
            return len(cs)
        if name == "__contains__":
            return self.str_contains(s, a[0])
        if name == "__eq__":
            return self.eq_simple(s, a[0])
        if name == "__add__":
            return mk(cs + chars(a[0]))
        if name == "__getitem__":
            return self.getitem(W, s, a[0])
        if name == "encode":
            raise Unsupported("encode on symbolic string")
        if name in ("expandtabs", "translate"):
            raise Unsupported(f"str.{name} on symbolic string")
        raise Unsupported(f"str.{name}")

    # ---- list
    def list_method(self, W, o, name, a, k):
        from . import prelude
        if name == "append":
            o.append(a[0]); W.mut += 1; return None
        if name == "extend":
            o.extend(self.iter_to_list(W, a[0])); W.mut += 1; return None
        if name == "insert":
            o.insert(self.I.concretize_int(W, a[0]), a[1]); W.mut += 1; return None
        if name == "pop":
            r = native(o.pop, *[self.I.concretize_int(W, x) for x in a]); W.mut += 1; return r
        if name == "clear":
            o.clear(); W.mut += 1; return None
        if name == "copy":
            return list(o)
        if name == "reverse":
            o.reverse(); W.mut += 1; return None
        if name in ("index", "remove", "count", "__contains__"):
            x = a[0]
            if all_concrete(x) and all_concrete(*o) and self._plain_seq(o) and self._plain(x):
                if name == "remove":
                    W.mut += 1
                return native(getattr(o, name), *a)
            if len(a) > 1:
                if name != "index" or len(a) > 3:
                    raise Unsupported(f"list.{name} with extra arguments")
                start = a[1] if isinstance(a[1], int) else self.I.concretize_int(W, a[1])
                stop = None if len(a) < 3 else (a[2] if isinstance(a[2], int) else self.I.concretize_int(W, a[2]))
                return Redirect(prelude._list_index_from, (o, x, start, stop))
            fn = {"index": prelude._list_index, "remove": prelude._list_remove, "count": prelude._list_count,
                  "__contains__": prelude._seq_contains}[name]
            return Redirect(fn, (o, x))
        if name == "sort":
            return Redirect(prelude._list_sort, (o, k.get("key"), k.get("reverse", False)))
        if name == "__len__":
            return len(o)
        if name == "__getitem__":
            return self.getitem(W, o, a[0])
        if name == "__iter__":
            return SIter(o)
        if name == "__repr__":
            return self.py_repr(W, o)
        raise Unsupported(f"list.{name}")

    def _plain(self, x):
        return isinstance(x, (int, str, float, bool, type(None), type, bytes)) or (isinstance(x, tuple) and all(self._plain(y) for y in x))

    def _plain_seq(self, o):
        return all(self._plain(x) for x in o)

    def tuple_method(self, W, o, name, a, k):
        from . import prelude
        if name in ("index", "count", "__contains__"):
            x = a[0]
            if all_concrete(x) and all_concrete(*o) and self._plain_seq(o) and self._plain(x):
                return native(getattr(o, name), *a)
            if len(a) > 1:
                raise Unsupported(f"tuple.{name} with bounds")
            fn = {"index": prelude._list_index, "count": prelude._list_count, "__contains__": prelude._seq_contains}[name]
            return Redirect(fn, (o, x))
        if name == "__len__":
            return len(o)
        raise Unsupported(f"tuple.{name}")

    # ---- dict
    def dict_method(self, W, d, name, a, k):
        if name == "get":
            k2 = self.dict_find(W, d, a[0])
            if k2 is MISSING:
                return a[1] if len(a) > 1 else None
            return d[k2]
        if name == "pop":
            k2 = self.dict_find(W, d, a[0])
            if k2 is MISSING:
                if len(a) > 1:
                    return a[1]
                raise PyRaise(KeyError(a[0]))
            W.mut += 1
            return d.pop(k2)
        if name == "setdefault":
            k2 = self.dict_find(W, d, a[0])
            if k2 is MISSING:
                v = a[1] if len(a) > 1 else None
                native(d.__setitem__, a[0], v); W.mut += 1
                return v
            return d[k2]
        if name == "items":
            return [(kk, v) for kk, v in d.items()]
        if name == "keys":
            return list(d.keys())
        if name == "values":
            return list(d.values())
        if name == "copy":
            r = type(d)()
            r.update(d)
            return r
        if name == "update":
            if a:
                src = a[0]
                if isinstance(src, dict):
                    for kk, v in list(src.items()):
                        self.dict_set(W, d, kk, v)
                else:
                    for pair in self.iter_to_list(W, src):
                        kk, v = self.iter_to_list(W, pair)
                        self.dict_set(W, d, kk, v)
            for kk, v in k.items():
                self.dict_set(W, d, kk, v)
            return None
        if name == "clear":
            d.clear(); W.mut += 1; return None
        if name == "popitem":
            W.mut += 1
            return native(d.popitem)
        if name == "__contains__":
            return self.dict_contains(d, a[0])
        if name == "__getitem__":
            return self.getitem(W, d, a[0])
        if name == "__setitem__":
            self.dict_set(W, d, a[0], a[1]); return None
        if name == "__len__":
            return len(d)
        if name == "__iter__":
            return SIter(list(d.keys()))
        raise Unsupported(f"dict.{name}")

    # ---- set
    def set_method(self, W, s, name, a, k):
        if name == "add":
            self.set_add(W, s, a[0]); return None
        if name == "__contains__":
            return self.set_contains(s, a[0])
        if name in ("intersection", "union", "difference"):
            op = {"intersection": "&", "union": "|", "difference": "-"}[name]
            r = s
            for o in a:
                if not isinstance(o, (SSet, set, frozenset)):
                    o = self.make_set(W, self.iter_to_list(W, o))
                r = self.set_binop(W, op, r, o)
            if r is s:
                r = SSet(self.set_items(s))
            return r
        if name == "update":
            for o in a:
                for x in self.iter_to_list(W, o):
                    self.set_add(W, s, x)
            return None
        if name in ("discard", "remove"):
            if not isinstance(s, SSet):
                raise Unsupported("mutation of native set")
            for i, y in enumerate(s.items):
                if self.truth(W, self.eq_simple(a[0], y)):
                    del s.items[i]; W.mut += 1
                    return None
            if name == "remove":
                raise PyRaise(KeyError(a[0]))
            return None
        if name == "copy":
            return SSet(self.set_items(s))
        if name == "__deepcopy__":
            return SSet(self.set_items(s))
        if name == "__len__":
            return len(self.set_items(s))
        if name == "issubset":
            o = a[0]
            return b_all(self.contains(W, o, x) for x in self.set_items(s))
        if name == "__reduce_ex__":
            raise Unsupported("pickle protocol on SSet")
        raise Unsupported(f"set.{name}")

    # ---- match
    def match_method(self, W, m, name, a, k):
        if a and isinstance(a[0], str):
            if a[0] not in m.gnames:
                pyraise(IndexError, "no such group")
            a = (m.gnames[a[0]],) + tuple(a[1:])
        if name in ("group", "__getitem__"):
            g = a[0] if a else 0
            if g == 0:
                return mk(chars(m.string)[m.s:m.e])
            sp = m.groups_[g - 1]
            if sp is None:
                return None
            return mk(chars(m.string)[sp[0]:sp[1]])
        if name == "start":
            g = a[0] if a else 0
            return m.s if g == 0 else (m.groups_[g - 1][0] if m.groups_[g - 1] else -1)
        if name == "end":
            g = a[0] if a else 0
            return m.e if g == 0 else (m.groups_[g - 1][1] if m.groups_[g - 1] else -1)
        if name == "span":
            return (m.s, m.e)
        if name == "groups":
            cs = chars(m.string)
            return tuple(None if sp is None else mk(cs[sp[0]:sp[1]]) for sp in m.groups_)
        if name == "groupdict":
            cs = chars(m.string)
            return {nm: (None if m.groups_[i - 1] is None else mk(cs[m.groups_[i - 1][0]:m.groups_[i - 1][1]])) for nm, i in m.gnames.items()}
        raise Unsupported(f"match.{name}")
