"""Entry point used by run_check.sh: `python -m pysym.run <check> --tier ...`.
An uncaught exception anywhere in a check is a harness error (exit 2), never a verdict: exit 1 is reserved for a
reproduced violation reported by pysym.harness.Check.finish (which prints the VIOLATION line)."""
import importlib
import sys
import traceback


def main():
    name = sys.argv[1]
    del sys.argv[1]
    try:
        mod = importlib.import_module(f"checks.{name}")
        mod.main()
    except SystemExit:
        raise
    except BaseException:  # noqa
        traceback.print_exc()
        print(f"harness error in checks.{name} (exit 2: inconclusive, not a verdict)")
        sys.exit(2)


if __name__ == "__main__":
    main()
