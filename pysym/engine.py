"""Engine: scheduling of worlds, forking on symbolic decisions, merging at loop heads, solver
queries, statistics.  See DESIGN §2."""
import hashlib
import os
import heapq
import inspect
import time
import types

import z3

from .values import *  # noqa
from . import interp as IP
from .interp import Interp, World, PyRaise, JUMPED
from .world import Cloner, Keyer
from . import models as MD
from . import prelude
from .mdd import MDD, THE as THE_MDD, TRUE as MDD_TRUE, FALSE as MDD_FALSE


class Budget(Exception):
    pass


class GNode:
    """lazy guard formula: converted to z3 only when a query needs it (memoised per node)"""
    __slots__ = ("kind", "a", "b", "z")

    def __init__(self, kind, a, b=None):
        self.kind, self.a, self.b, self.z = kind, a, b, None

    def __deepcopy__(self, memo):
        return self


def cube_key(c):
    return tuple(sorted((v.idx, d) for v, d in c.items()))


def simplify_cubes(cubes):
    """exact simplification of a union of cubes: drop duplicates, join cubes that differ in the
    domain of exactly one variable"""
    cur = {}
    for c in cubes:
        cur[cube_key(c)] = c
    changed = True
    while changed and len(cur) > 1:
        changed = False
        vars_ = set()
        for c in cur.values():
            vars_ |= set(c)
        for var in sorted(vars_, key=lambda v: v.idx):
            groups = {}
            for k, c in cur.items():
                rest = tuple(x for x in k if x[0] != var.idx)
                groups.setdefault(rest, []).append(c)
            if len(groups) == len(cur):
                continue
            new = {}
            for rest, cs in groups.items():
                if len(cs) == 1:
                    c = cs[0]
                else:
                    d = frozenset()
                    for c in cs:
                        d |= c.get(var, var.full)
                    c = dict(cs[0])
                    if d == var.full:
                        c.pop(var, None)
                    else:
                        c[var] = d
                    changed = True
                new[cube_key(c)] = c
            cur = new
    return list(cur.values())


_DOMC = {}


def dom_z3(var, dom):
    k = (var.idx, dom)
    r = _DOMC.get(k)
    if r is None:
        r = _DOMC[k] = var.domain_constraint(dom)
    return r


def g_z3(n):
    """iterative conversion of a guard DAG to z3"""
    if n is None:
        return z3.BoolVal(True)
    if n.z is not None:
        return n.z
    stack = [n]
    while stack:
        x = stack[-1]
        if x.z is not None:
            stack.pop()
            continue
        if x.kind == "z3":
            x.z = x.a
            stack.pop()
        elif x.kind == "dd":
            x.z = x.b.to_z3(x.a)
            stack.pop()
        elif x.kind == "and" or x.kind == "or":
            kids = x.a
            pend = [c for c in kids if c.z is None]
            if pend:
                stack.extend(pend)
                continue
            zs = [c.z for c in kids]
            x.z = (z3.And(zs) if x.kind == "and" else z3.Or(zs)) if len(zs) > 1 else zs[0]
            stack.pop()
        else:
            raise EngineError(x.kind)
    return n.z


class Engine:
    def __init__(self, interp_prefixes=("bibtexparser", "copy", "pysym.prelude", "checks.", "__main__"), merge=True, step_limit=2_000_000,
                 max_frames=400, timeout=None):
        self.interp_prefixes = tuple(interp_prefixes)
        self.repo_root = os.environ.get("VERIF_REPO", "/repo").rstrip("/")
        self.interp_files = (self.repo_root + "/bibtexparser/",)
        self.extra_interp = set()
        self.owned_classes = set()
        self.native_models = {}     # callable -> fn(interp, W, args, kwargs)
        self.foreign_models = {}    # (class, method name) -> fn(interp, W, obj, args, kwargs)
        self.class_models = {}      # foreign class -> fn(interp, W, args, kwargs)
        self.merge = merge
        # pure-Python helpers of the standard library reached from the code under test (textwrap, functools.wraps,
        # dataclasses.replace, ...) are interpreted like any other code instead of ending the run as Unsupported
        self.interpret_any_python = True
        self.step_limit = step_limit
        self.max_frames = max_frames
        self.timeout = timeout
        self.merge_filter = None    # optional predicate(CodeInfo) -> bool : park at loop heads of this code?
        self.progress_fn = None
        self.mdd = THE_MDD
        self._pins = []
        self.solver = z3.Solver()
        self.vars = []
        self.base = []              # global assumptions (domain constraints, harness assumptions)
        self.stats = dict(steps=0, forks=0, merges=0, parks=0, states=0, queries=0, solver_s=0.0, unsat=0, sat=0,
                          unary_decisions=0, general_decisions=0, clones=0, max_worlds=0, worlds_finished=0, max_cubes=1)
        self.codes_seen = {}
        self.I = Interp(self)
        self.cloner = Cloner(self)
        self.keyer = Keyer(self)
        self.native_models[prelude._is_gen] = lambda I, W, a, k: isinstance(a[0], IP.SGen)
        self.native_models[prelude._is_plain] = lambda I, W, a, k: MD.is_simple(a[0]) and not isinstance(a[0], (list, dict, MD.SSet))
        self._owned_cache = {}
        self.t0 = time.time()
        self.fresh = 0

    # ------------------------------------------------------------------ configuration helpers
    def interpret_also(self, *fns):
        for f in fns:
            self.extra_interp.add(f)

    def own_class(self, *classes):
        for c in classes:
            self.owned_classes.add(c)
        self._owned_cache.clear()

    def world_owned_class(self, cls):
        r = self._owned_cache.get(cls)
        if r is None:
            mod = getattr(cls, "__module__", "") or ""
            r = (mod.startswith(self.interp_prefixes[0]) or cls in self.owned_classes
                 or (isinstance(cls, type) and issubclass(cls, BaseException))
                 or any(c in self.owned_classes for c in getattr(cls, "__mro__", ())))
            if cls in (object, type):
                r = False
            self._owned_cache[cls] = r
        return r

    def note_code(self, ci, fn):
        if ci.code not in self.codes_seen:
            self.codes_seen[ci.code] = fn

    def functions_encoded(self):
        out = []
        for code, fn in self.codes_seen.items():
            fname = code.co_filename
            if not fname.startswith(self.repo_root + "/"):
                continue
            out.append({"function": getattr(code, "co_qualname", code.co_name), "file": fname,
                        "line": code.co_firstlineno,
                        "sha256": hashlib.sha256(code.co_code + repr(code.co_consts).encode()).hexdigest()[:16]})
        out.sort(key=lambda d: (d["file"], d["line"]))
        return out

    # ------------------------------------------------------------------ symbols
    def sym_char(self, name, alphabet):
        v = CharVar(name, alphabet)
        self.vars.append(v)
        self.solver.add(v.domain_constraint())
        return SChar(v)

    def sym_str(self, name, length, alphabet):
        return mk([self.sym_char(f"{name}{i}", alphabet) for i in range(length)]) if length else ""

    def sym_bool(self, name=None):
        self.fresh += 1
        return SBool(z3.Bool(name or f"b{self.fresh}"))

    def sym_int(self, name, lo, hi):
        e = z3.Int(name)
        self.solver.add(e >= lo, e <= hi)
        return SInt(e, lo, hi)

    def assume(self, cond):
        """global assumption (part of every query)"""
        if cond is True:
            return
        self.solver.add(b_z3(cond))

    # ------------------------------------------------------------------ solver
    def check(self, *es):
        t = time.time()
        self.solver.push()
        for e in es:
            self.solver.add(e)
        r = self.solver.check()
        m = self.solver.model() if r == z3.sat else None
        self.solver.pop()
        self.stats["queries"] += 1
        self.stats["solver_s"] += time.time() - t
        if r == z3.unknown:
            raise Unsupported("solver returned unknown")
        if r == z3.sat:
            self.stats["sat"] += 1
        else:
            self.stats["unsat"] += 1
        return (r == z3.sat), m

    def gnode(self, W):
        """exact guard of a world as a lazy node (None = True)"""
        parts = [] if W.g is None else [W.g]
        if W.dd is not MDD_TRUE:
            parts.append(GNode("dd", W.dd, self.mdd))
        if not parts:
            return None
        if len(parts) == 1:
            return parts[0]
        return GNode("and", parts)

    def guard(self, W):
        """exact z3 guard of a world"""
        return g_z3(self.gnode(W))

    def query(self, W, cond):
        """is `guard(W) and cond` satisfiable?  cond: bool / SBool / z3"""
        if cond is False:
            return False, None
        c = cond if isinstance(cond, z3.ExprRef) else b_z3(cond)
        return self.check(self.guard(W), c)

    def model_char(self, m, c):
        if isinstance(c, str):
            return c
        v = m.eval(c.var.z, model_completion=True).as_long()
        ch = chr(v)
        if ch not in c.var.full:
            ch = c.var.alpha[0]
        return c.value_of(ch)

    def model_str(self, m, s):
        return "".join(self.model_char(m, c) for c in chars(s))

    def model_value(self, m, v):
        if isinstance(v, (SStr, SChar)):
            return self.model_str(m, v)
        if isinstance(v, SBool):
            return z3.is_true(m.eval(v.e, model_completion=True))
        if isinstance(v, SInt):
            return m.eval(v.e, model_completion=True).as_long()
        if isinstance(v, list):
            return [self.model_value(m, x) for x in v]
        if isinstance(v, tuple):
            return tuple(self.model_value(m, x) for x in v)
        if isinstance(v, dict):
            return {self.model_value(m, k): self.model_value(m, x) for k, x in v.items()}
        if isinstance(v, MD.SSet):
            return set(self.model_value(m, x) for x in v.items)
        return v

    # ------------------------------------------------------------------ forking
    def fork(self, W, cond):
        """returns list of worlds (1 or 2) in which cond is decided"""
        out = []
        if cond.var is not None:
            var = cond.var
            tc = self.mdd.restrict(W.dd, var, cond.mask)
            fc = self.mdd.restrict(W.dd, var, cond.cmask)
            self.stats["unary_decisions"] += 1
            if tc is not MDD_FALSE and fc is not MDD_FALSE:
                W2 = self.cloner.clone_world(W)
                self.stats["clones"] += 1
                W.dd = tc
                W2.dd = fc
                return [W, W2]
            W.dd = tc if tc is not MDD_FALSE else fc   # (cannot happen: truth() would have answered)
            return [W]
        if cond.dd is not None:
            tc = self.mdd.conj(W.dd, cond.dd)
            fc = self.mdd.conj(W.dd, self.mdd.neg(cond.dd))
            self.stats["unary_decisions"] += 1
            if tc is not MDD_FALSE and fc is not MDD_FALSE:
                W2 = self.cloner.clone_world(W)
                self.stats["clones"] += 1
                W.dd = tc
                W2.dd = fc
                return [W, W2]
            W.dd = tc if tc is not MDD_FALSE else fc
            return [W]
        self.stats["general_decisions"] += 1
        self._pins.append(cond)     # keep the z3 AST alive: decided[] is keyed by its id
        g = self.guard(W)
        e = cond.e
        st, _ = self.check(g, e)
        sf, _ = self.check(g, z3.Not(e))
        k = cond.key()
        if st and sf:
            W2 = self.cloner.clone_world(W)
            self.stats["clones"] += 1
            self._add(W, e, k, True)
            self._add(W2, z3.Not(e), k, False)
            return [W, W2]
        if st:
            W.decided[k] = True
            return [W]
        if sf:
            W.decided[k] = False
            return [W]
        return []  # infeasible world

    def _add(self, W, e, k, val):
        n = GNode("z3", e)
        W.g = n if W.g is None else GNode("and", [W.g, n])
        W.decided[k] = val

    def merge_into(self, A, B):
        """A := A or B (same state key)"""
        if A.g is B.g:
            A.dd = self.mdd.union(A.dd, B.dd)
        else:
            # different relational parts: the exact guard goes to g, dd keeps an over-approximation
            ga, gb = self.gnode(A), self.gnode(B)
            A.g = None if (ga is None or gb is None) else GNode("or", [ga, gb])
            A.dd = self.mdd.union(A.dd, B.dd)
        A.decided = {k: v for k, v in A.decided.items() if B.decided.get(k) is v}
        A.steps = min(A.steps, B.steps)
        A.maxdepth = max(A.maxdepth, B.maxdepth)
        if B.maxrec[0] > A.maxrec[0]:
            A.maxrec = B.maxrec
        self.stats["merges"] += 1

    def drop_dead(self, W):
        """delete dead fast locals of every frame (sound: they cannot be read again)"""
        top = W.frames[-1]
        for F in W.frames:
            live = F.ci.liveness()
            if F.pc >= len(live):
                continue
            keep = live[F.pc]
            if F is not top:
                h = F.ci.handler(F.lasti)
                if h is not None:
                    keep = keep | live[h[0]]
            if F.gen is not None:
                continue
            dead = [nm for nm in F.fast if nm not in keep]
            for nm in dead:
                del F.fast[nm]

    # ------------------------------------------------------------------ running
    def run(self, fn, args=(), kwargs=None, guard=None):
        """Symbolically execute fn(*args, **kwargs); returns the list of final worlds
        (each has .result / .exc and a guard)."""
        if isinstance(fn, types.FunctionType) and not self.I.interpretable_func(fn):
            self.extra_interp.add(fn)
        W0 = World()
        if guard is None or guard is True:
            pass
        elif isinstance(guard, SBool) and guard.as_dd() is not None:
            W0.dd = guard.as_dd()
        else:
            W0.g = GNode("z3", b_z3(guard))
        F0 = IP.Frame(IP.CodeInfo.of(_trampoline.__code__), IP.gref(globals()))
        # call through push_frame directly
        W0.frames = []
        try:
            r = self.I.do_call(W0, None, fn, tuple(args), kwargs or {})
        except PyRaise as pr:
            W0.done, W0.exc = True, pr.exc
            return [W0]
        if r is not JUMPED:
            W0.done, W0.result = True, r
            return [W0]
        finished = {}
        parked = {}
        heap = []
        seq = 0
        work = [W0]
        I = self.I
        stats = self.stats
        deadline = None if self.timeout is None else time.time() + self.timeout
        while work or parked:
            if not work:
                # expand the least-advanced parked world
                while True:
                    prog, _, k = heapq.heappop(heap)
                    w = parked.pop(k, None)
                    if w is not None:
                        break
                w.resume = True
                work.append(w)
                stats["states"] += 1
            n_live = len(work) + len(parked)
            if n_live > stats["max_worlds"]:
                stats["max_worlds"] = n_live
            W = work.pop()
            if deadline is not None and time.time() > deadline:
                raise Budget("time budget exhausted")
            while True:
                if W.done:
                    key = self.keyer.key(W) if self.merge else id(W)
                    if key in finished:
                        self.merge_into(finished[key], W)
                    else:
                        finished[key] = W
                    stats["worlds_finished"] += 1
                    break
                if W.at_loop:
                    W.at_loop = False
                    if self.merge and not W.resume:
                        F = W.frames[-1]
                        if self.merge_filter is None or self.merge_filter(F.ci):
                            self.drop_dead(W)
                            key = self.keyer.key(W)
                            hk = hash(key)
                            if hk in W.recent:
                                # the very same control state + heap again on this path: the program loops forever
                                W.done = True
                                W.exc = StepLimit("the same state repeats at a loop head (non-termination)")
                                continue
                            W.recent = (W.recent + (hk,))[-8:]
                            prog = self.progress_fn(W) if self.progress_fn else (self.keyer.progress, W.steps)
                            stats["parks"] += 1
                            if key in parked:
                                self.merge_into(parked[key], W)
                            else:
                                parked[key] = W
                                seq += 1
                                heapq.heappush(heap, (prog, seq, key))
                            break
                W.resume = False
                if W.steps > self.step_limit:
                    W.done = True
                    W.exc = StepLimit(f"step limit {self.step_limit} exceeded (possible non-termination)")
                    continue
                try:
                    I.step(W)
                except NeedDecision as d:
                    stats["forks"] += 1
                    ws = self.fork(W, d.cond)
                    if not ws:
                        break
                    for w2 in ws[1:]:
                        work.append(w2)
                    W = ws[0]
        return list(finished.values())


class StepLimit(Exception):
    pass


def _trampoline():
    pass
