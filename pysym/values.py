"""pysym values: symbolic leaves over z3 with a concrete skeleton.

SChar  one character whose code point is a z3 Int restricted to a finite alphabet
       (optionally seen through a per-alphabet-member map, e.g. after .lower()).
SStr   immutable string of *concrete length*; elements are 1-char str or SChar.
SBool  z3 Bool; either *unary* (a membership constraint on one character variable, kept as a
       Python set so that it can be decided against a per-world domain without the solver)
       or *general* (arbitrary z3 expression).
SInt   z3 Int leaf with declared inclusive bounds.
"""
import z3

from .mdd import THE as _MDD, TRUE as _DD_TRUE, FALSE as _DD_FALSE


class Unsupported(Exception):
    """Construct / call outside the engine's model: the run is inconclusive (never a verdict)."""


class EngineError(Exception):
    """Internal inconsistency of the engine (harness error, exit 2)."""


class NeedDecision(BaseException):
    """Raised (before any side effect of the current instruction) when the truth of a symbolic
    condition is needed; the scheduler forks the world and re-executes the instruction."""

    def __init__(self, cond):
        self.cond = cond


_var_counter = [0]


class CharVar:
    __slots__ = ("name", "z", "alpha", "idx", "full", "ords", "bit", "fullmask")

    def __init__(self, name, alpha):
        self.name = name
        self.z = z3.Int(name)
        self.alpha = tuple(dict.fromkeys(alpha))
        self.full = frozenset(self.alpha)
        self.bit = {a: 1 << i for i, a in enumerate(self.alpha)}
        self.fullmask = (1 << len(self.alpha)) - 1
        _var_counter[0] += 1
        self.idx = _var_counter[0]

    def mask(self, chars_):
        m = 0
        for a in chars_:
            m |= self.bit[a]
        return m

    def unmask(self, m):
        return frozenset(a for a in self.alpha if m & self.bit[a])

    def domain_constraint(self, allowed=None):
        allowed = self.full if allowed is None else allowed
        return z3.Or([self.z == ord(a) for a in sorted(allowed)]) if allowed else z3.BoolVal(False)

    def __deepcopy__(self, memo):
        return self

    def __repr__(self):
        return f"<{self.name}>"


class SBool:
    """Three forms:  unary  (var, allowed): var in allowed            [solver-free]
                     dd     MDD over the character variables          [solver-free, see mdd.py]
                     general z3 expression in ._e"""

    __slots__ = ("var", "allowed", "_e", "mask", "cmask", "dd")

    def __init__(self, e=None, var=None, allowed=None, dd=None):
        self._e = e
        self.var = var
        self.allowed = allowed
        self.dd = dd
        if var is not None:
            self.mask = var.mask(allowed)
            self.cmask = var.fullmask & ~self.mask

    @property
    def unary(self):
        return self.var is not None

    @property
    def e(self):
        if self._e is None:
            if self.var is not None:
                v = self.var
                if len(self.allowed) * 2 <= len(v.alpha):
                    self._e = z3.Or([v.z == ord(a) for a in sorted(self.allowed)])
                else:
                    self._e = z3.Not(z3.Or([v.z == ord(a) for a in sorted(v.full - self.allowed)]))
            else:
                self._e = _MDD.to_z3(self.dd)
        return self._e

    def as_dd(self):
        """MDD node of the condition or None (general)"""
        if self.dd is not None:
            return self.dd
        if self.var is not None:
            self.dd = _MDD.restrict(_DD_TRUE, self.var, self.mask)
            return self.dd
        return None

    def key(self):
        if self.var is not None:
            return ("u", self.var.idx, self.mask)
        if self.dd is not None:
            return ("d", self.dd.id)
        return ("g", self._e.get_id())

    def __bool__(self):
        raise EngineError("Python truth-test of an SBool inside the engine (missing truth() call)")

    def __repr__(self):
        if self.var is not None:
            return f"SBool({self.var.name} in {sorted(self.allowed)!r})"
        if self.dd is not None:
            return f"SBool(dd#{self.dd.id})"
        return f"SBool({self._e})"


def mk_unary(var, allowed):
    allowed = frozenset(allowed) & var.full
    if not allowed:
        return False
    if allowed == var.full:
        return True
    return SBool(var=var, allowed=allowed)


def from_dd(n):
    if n is _DD_TRUE:
        return True
    if n is _DD_FALSE:
        return False
    if all(ch is _DD_TRUE for _, ch in n.edges):
        m = 0
        for vals, _ in n.edges:
            m |= vals
        return SBool(var=n.var, allowed=n.var.unmask(m))
    return SBool(dd=n)


def b_not(a):
    if isinstance(a, bool):
        return not a
    if isinstance(a, SBool):
        if a.var is not None:
            return mk_unary(a.var, a.var.full - a.allowed)
        if a.dd is not None:
            return from_dd(_MDD.neg(a.dd))
        return SBool(z3.Not(a.e))
    raise EngineError(f"b_not on {type(a)}")


def b_and(a, b):
    if a is False or b is False:
        return False
    if a is True:
        return b
    if b is True:
        return a
    if a.var is not None and a.var is b.var:
        return mk_unary(a.var, a.allowed & b.allowed)
    da, db = a.as_dd(), b.as_dd()
    if da is not None and db is not None:
        return from_dd(_MDD.conj(da, db))
    return SBool(z3.And(a.e, b.e))


def b_or(a, b):
    if a is True or b is True:
        return True
    if a is False:
        return b
    if b is False:
        return a
    if a.var is not None and a.var is b.var:
        return mk_unary(a.var, a.allowed | b.allowed)
    da, db = a.as_dd(), b.as_dd()
    if da is not None and db is not None:
        return from_dd(_MDD.union(da, db))
    return SBool(z3.Or(a.e, b.e))


def b_all(xs):
    r = True
    for x in xs:
        r = b_and(r, x)
        if r is False:
            return False
    return r


def b_any(xs):
    r = False
    for x in xs:
        r = b_or(r, x)
        if r is True:
            return True
    return r


def b_z3(a):
    if isinstance(a, bool):
        return z3.BoolVal(a)
    return a.e


_PRED_CACHE = {}


class SChar:
    """One symbolic character: value = fmap[var] (fmap None = identity)."""

    __slots__ = ("var", "fmap", "_fk")

    def __init__(self, var, fmap=None):
        self.var = var
        if fmap is not None and all(k == v for k, v in fmap.items()):
            fmap = None
        self.fmap = fmap
        self._fk = None if fmap is None else tuple(sorted(fmap.items()))

    def __deepcopy__(self, memo):
        return self

    def value_of(self, base):
        return base if self.fmap is None else self.fmap[base]

    def values(self):
        return [self.value_of(b) for b in self.var.alpha]

    def pred(self, f, cache_key=None):
        """unary condition: f(value) for CPython's own answer on each alphabet member.
        cache_key: hashable identifying f (only for long-lived predicates)"""
        if cache_key is not None:
            k = (cache_key, self.var.idx, self._fk)
            r = _PRED_CACHE.get(k)
            if r is None:
                r = _PRED_CACHE[k] = mk_unary(self.var, [b for b in self.var.alpha if f(self.value_of(b))])
            return r
        return mk_unary(self.var, [b for b in self.var.alpha if f(self.value_of(b))])

    def map(self, f):
        """derived character (f maps a 1-char str to a 1-char str)"""
        fm = {}
        for b in self.var.alpha:
            r = f(self.value_of(b))
            if not isinstance(r, str) or len(r) != 1:
                raise Unsupported(f"character map changes length on {self.value_of(b)!r}")
            fm[b] = r
        return SChar(self.var, fm)

    def zval(self):
        """z3 Int expression of the code point"""
        if self.fmap is None:
            return self.var.z
        e = None
        groups = {}
        for b in self.var.alpha:
            groups.setdefault(self.fmap[b], []).append(b)
        items = sorted(groups.items())
        e = z3.IntVal(ord(items[-1][0]))
        for val, bases in items[:-1]:
            e = z3.If(z3.Or([self.var.z == ord(b) for b in bases]), z3.IntVal(ord(val)), e)
        return e

    def eq(self, other):
        if isinstance(other, SChar):
            if other.var is self.var:
                return mk_unary(self.var, [b for b in self.var.alpha if self.value_of(b) == other.value_of(b)])
            if self.fmap is None and other.fmap is None:
                if not (self.var.full & other.var.full):
                    return False
                return SBool(self.var.z == other.var.z)
            return SBool(self.zval() == other.zval())
        if isinstance(other, str):
            if len(other) != 1:
                return False
            return mk_unary(self.var, [b for b in self.var.alpha if self.value_of(b) == other])
        return False

    def key(self):
        return (self.var.idx, self._fk)

    def __hash__(self):
        return hash((self.var.idx, self._fk))

    def __eq__(self, other):
        return isinstance(other, SChar) and other.var is self.var and other._fk == self._fk

    def __repr__(self):
        return f"<{self.var.name}{'~' if self.fmap else ''}>"


class SStr:
    """Concrete-length string whose elements are 1-char str or SChar.  Immutable."""

    __slots__ = ("cs", "_h")

    def __init__(self, cs):
        self.cs = tuple(cs)
        self._h = None

    def __len__(self):
        return len(self.cs)

    def __deepcopy__(self, memo):
        return self

    def __hash__(self):
        if self._h is None:
            self._h = hash(self.cs)
        return self._h

    def __eq__(self, other):  # structural identity of terms (NOT Python-level string equality)
        return isinstance(other, SStr) and self.cs == other.cs

    def __repr__(self):
        return "S'" + "".join(c if isinstance(c, str) else repr(c) for c in self.cs) + "'"


def mk(cs):
    cs = tuple(cs)
    for c in cs:
        if not isinstance(c, str):
            return SStr(cs)
    return "".join(cs)


def chars(s):
    if isinstance(s, str):
        return tuple(s)
    if isinstance(s, SChar):
        return (s,)
    if isinstance(s, SStr):
        return s.cs
    raise EngineError(f"chars() of {type(s)}")


def is_strlike(v):
    return isinstance(v, (str, SStr, SChar))


def ch_eq(a, b):
    if isinstance(a, str):
        if isinstance(b, str):
            return a == b
        return b.eq(a)
    return a.eq(b)


def s_eq(a, b):
    ca, cb = chars(a), chars(b)
    if len(ca) != len(cb):
        return False
    if ca == cb:
        return True
    r = True
    for x, y in zip(ca, cb):
        r = b_and(r, ch_eq(x, y))
        if r is False:
            return False
    return r


def ch_z(c):
    return z3.IntVal(ord(c)) if isinstance(c, str) else c.zval()


def s_lt(a, b, or_equal=False):
    """lexicographic a < b (or <=) by code point, as CPython compares str"""
    ca, cb = chars(a), chars(b)
    if all(isinstance(c, str) for c in ca + cb):
        sa, sb = "".join(ca), "".join(cb)
        return sa <= sb if or_equal else sa < sb
    n = min(len(ca), len(cb))
    # result when all first n chars are equal
    tail = (len(ca) < len(cb)) or (or_equal and len(ca) == len(cb))
    e = z3.BoolVal(tail)
    for i in range(n - 1, -1, -1):
        x, y = ca[i], cb[i]
        if isinstance(x, str) and isinstance(y, str):
            if x < y:
                e = z3.BoolVal(True)
            elif x > y:
                e = z3.BoolVal(False)
            continue
        zx, zy = ch_z(x), ch_z(y)
        e = z3.If(zx < zy, z3.BoolVal(True), z3.If(zx > zy, z3.BoolVal(False), e))
    e = z3.simplify(e)
    if z3.is_true(e):
        return True
    if z3.is_false(e):
        return False
    return SBool(e)


class SInt:
    """z3 Int leaf/expression with declared inclusive bounds (lo, hi)."""

    __slots__ = ("e", "lo", "hi")

    def __init__(self, e, lo, hi):
        self.e = e
        self.lo = lo
        self.hi = hi

    def __deepcopy__(self, memo):
        return self

    def key(self):
        return ("i", self.e.get_id())

    def __hash__(self):
        return hash(self.e.get_id())

    def __eq__(self, other):
        return isinstance(other, SInt) and other.e.get_id() == self.e.get_id()

    def __repr__(self):
        return f"SInt({self.e})"


def i_z(v):
    if isinstance(v, SInt):
        return v.e
    if isinstance(v, bool):
        return z3.IntVal(int(v))
    if isinstance(v, int):
        return z3.IntVal(v)
    raise EngineError(f"i_z of {type(v)}")


def i_bounds(v):
    if isinstance(v, SInt):
        return v.lo, v.hi
    return int(v), int(v)


def i_cmp(op, a, b):
    za, zb = i_z(a), i_z(b)
    e = {"<": za < zb, "<=": za <= zb, ">": za > zb, ">=": za >= zb, "==": za == zb, "!=": za != zb}[op]
    e = z3.simplify(e)
    if z3.is_true(e):
        return True
    if z3.is_false(e):
        return False
    return SBool(e)


def i_arith(op, a, b):
    (la, ha), (lb, hb) = i_bounds(a), i_bounds(b)
    za, zb = i_z(a), i_z(b)
    if op == "+":
        return SInt(za + zb, la + lb, ha + hb)
    if op == "-":
        return SInt(za - zb, la - hb, ha - lb)
    if op == "*":
        if isinstance(a, SInt) and isinstance(b, SInt):
            raise Unsupported("symbolic * symbolic")
        cands = [la * lb, la * hb, ha * lb, ha * hb]
        return SInt(za * zb, min(cands), max(cands))
    raise Unsupported(f"SInt op {op}")


def sym_type(v):
    """the Python type a value stands for (used by isinstance/type models)"""
    if isinstance(v, (SStr, SChar)):
        return str
    if isinstance(v, SBool):
        return bool
    if isinstance(v, SInt):
        return int
    return None
