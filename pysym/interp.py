"""pysym interpreter: executes CPython 3.12 bytecode of the *live* functions of the code under
test over pysym values.  A world is plain data (frames + heap), so it can be cloned at a
symbolic decision and merged with another world that reached the same program point with the
same skeleton.

Only the functions of the packages listed in Engine.interp_prefixes (the repository under test,
stdlib ``copy``/``copyreg``, the prelude and the harness drivers) are interpreted; every other
callable must have an explicit model in models.py or the run ends as Unsupported (inconclusive).
"""
import dis
import types
import sys

from .values import *  # noqa
from . import values as V
from .mdd import TRUE as MDD_TRUE, FALSE as MDD_FALSE

NULL = type("NULLType", (), {"__repr__": lambda s: "NULL", "__deepcopy__": lambda s, m: s})()
JUMPED = object()

CO_VARARGS, CO_VARKEYWORDS, CO_GENERATOR = 0x04, 0x08, 0x20


class PyRaise(BaseException):
    """An exception of the *interpreted* program (as opposed to an engine failure)."""

    def __init__(self, exc):
        self.exc = exc


def pyraise(cls, *args):
    raise PyRaise(cls(*args))


class Redirect:
    """Returned by a native model to ask the interpreter to call something interpretable."""

    __slots__ = ("fn", "args", "kwargs", "ret")

    def __init__(self, fn, args, kwargs=None, ret="push"):
        self.fn, self.args, self.kwargs, self.ret = fn, tuple(args), kwargs or {}, ret


class GlobalsRef:
    __slots__ = ("d",)

    def __init__(self, d):
        self.d = d

    def __deepcopy__(self, memo):
        return self


_GREFS = {}


def gref(d):
    r = _GREFS.get(id(d))
    if r is None:
        r = _GREFS[id(d)] = GlobalsRef(d)
    return r


class CodeInfo:
    _cache = {}

    def __init__(self, code):
        self.code = code
        ins = list(dis.get_instructions(code))
        self.ops = [(i.opname, i.arg, i.argval) for i in ins]
        self.offsets = [i.offset for i in ins]
        off2idx = {i.offset: k for k, i in enumerate(ins)}
        self.jt = [None] * len(ins)
        self.loop_heads = set()
        for k, i in enumerate(ins):
            if i.opcode in dis.hasjrel or i.opcode in dis.hasjabs:
                self.jt[k] = off2idx[i.argval]
                if i.opname.startswith("JUMP_BACKWARD"):
                    self.loop_heads.add(off2idx[i.argval])
        self.extab = []
        for e in dis._parse_exception_table(code):
            self.extab.append((e.start, e.end, off2idx[e.target], e.depth, e.lasti))
        self._live = None
        self.is_gen = bool(code.co_flags & CO_GENERATOR)
        self.nbops = [x[1] for x in dis._nb_ops]
        self.name = code.co_qualname if hasattr(code, "co_qualname") else code.co_name

    def liveness(self):
        """live_in[idx] = set of fast-local names that may be read before being written from idx on
        (exception edges included).  Used to drop dead locals before computing merge keys."""
        if self._live is not None:
            return self._live
        n = len(self.ops)
        succ = [[] for _ in range(n)]
        for k, (op, arg, argval) in enumerate(self.ops):
            nxt = k + 1 if k + 1 < n else None
            if op in ("RETURN_VALUE", "RETURN_CONST", "RAISE_VARARGS", "RERAISE"):
                pass
            elif op in ("JUMP_FORWARD", "JUMP_BACKWARD", "JUMP_BACKWARD_NO_INTERRUPT"):
                succ[k].append(self.jt[k])
            elif self.jt[k] is not None:
                t = self.jt[k]
                if op == "FOR_ITER":
                    t = t + 1
                succ[k].append(t)
                if nxt is not None:
                    succ[k].append(nxt)
            elif nxt is not None:
                succ[k].append(nxt)
            h = self.handler(k)
            if h is not None:
                succ[k].append(h[0])
        use = [None] * n
        dfn = [None] * n
        for k, (op, arg, argval) in enumerate(self.ops):
            if op in ("LOAD_FAST", "LOAD_FAST_CHECK", "LOAD_FAST_AND_CLEAR", "DELETE_FAST", "MAKE_CELL"):
                use[k] = argval
            if op == "STORE_FAST":
                dfn[k] = argval
        live = [frozenset()] * n
        changed = True
        while changed:
            changed = False
            for k in range(n - 1, -1, -1):
                out = set()
                for t in succ[k]:
                    out |= live[t]
                if dfn[k] is not None:
                    out.discard(dfn[k])
                if use[k] is not None:
                    out.add(use[k])
                if len(out) != len(live[k]):
                    live[k] = frozenset(out)
                    changed = True
        self._live = live
        return live

    @classmethod
    def of(cls, code):
        ci = cls._cache.get(code)
        if ci is None:
            ci = cls._cache[code] = CodeInfo(code)
        return ci

    def handler(self, idx):
        off = self.offsets[idx]
        for (s, e, t, d, l) in self.extab:
            if s <= off < e:
                return t, d, l
        return None

    def __deepcopy__(self, memo):
        return self


class Cell:
    _mutable_ = True
    __slots__ = ("v",)

    def __init__(self, v=NULL):
        self.v = v


class SFunc:
    """function object created by MAKE_FUNCTION inside the interpreter"""
    _mutable_ = True
    __slots__ = ("code", "g", "defaults", "kwdefaults", "closure", "name")

    def __init__(self, code, g, defaults, kwdefaults, closure, name):
        self.code, self.g, self.defaults, self.kwdefaults, self.closure, self.name = code, g, defaults, kwdefaults, closure, name


class BM:
    """bound method of an interpretable function"""
    _mutable_ = True
    __slots__ = ("func", "self")

    def __init__(self, func, self_):
        self.func = func
        self.self = self_


class BuiltinMethod:
    """method of a modelled builtin value (str/list/dict/...)"""
    _mutable_ = True
    __slots__ = ("obj", "name")

    def __init__(self, obj, name):
        self.obj, self.name = obj, name


class NativeBound:
    """builtin slot/method of a real object, resolved and called natively at call time"""
    _mutable_ = True
    __slots__ = ("obj", "name", "via")

    def __init__(self, obj, name, via=None):
        self.obj, self.name, self.via = obj, name, via


class SGen:
    _mutable_ = True
    __slots__ = ("frame", "state")  # state: 'new' | 'suspended' | 'running' | 'done'

    def __init__(self, frame):
        self.frame = frame
        self.state = "new"


class Frame:
    _mutable_ = True
    __slots__ = ("ci", "pc", "lasti", "stack", "fast", "cells", "g", "ret", "kwnames", "gen", "fn")

    def __init__(self, ci, g, fn=None):
        self.ci = ci
        self.pc = 0
        self.lasti = 0
        self.stack = []
        self.fast = {}
        self.cells = {}
        self.g = g
        self.ret = "push"
        self.kwnames = ()
        self.gen = None
        self.fn = fn


class World:
    def __init__(self):
        self.frames = []
        self.g = None          # z3 guard (relational part + everything up to the last merge)
        self.dd = MDD_TRUE     # exact unary part of the guard as an MDD (see mdd.py)
        self.decided = {}      # cond key -> bool (facts implied by the guard)
        self.done = False
        self.result = None
        self.exc = None
        self.handled = None    # exception currently being handled
        self.steps = 0
        self.mut = 0
        self.resume = False
        self.at_loop = False
        self.maxdepth = 0
        self.maxrec = (0, None)  # deepest self-recursion of a function of the code under test
        self.recent = ()         # hashes of the last state keys seen at loop heads on this path (non-termination detector)
        self.tags = {}
        self.idtab = {}
        self.next_lid = 1


class Interp:
    def __init__(self, engine):
        self.eng = engine
        self.dispatch = {}
        for name in dir(self):
            if name.startswith("op_"):
                self.dispatch[name[3:]] = getattr(self, name)
        from . import models
        self.models = models.Models(self)

    # ------------------------------------------------------------------ truth / decisions
    def truth(self, W, v):
        if v is True or v is False:
            return v
        if v is None:
            return False
        if isinstance(v, SBool):
            if v.var is not None:
                mdd = self.eng.mdd
                if mdd.restrict(W.dd, v.var, v.cmask) is MDD_FALSE:
                    return True
                if mdd.restrict(W.dd, v.var, v.mask) is MDD_FALSE:
                    return False
                raise NeedDecision(v)
            if v.dd is not None:
                mdd = self.eng.mdd
                if mdd.conj(W.dd, mdd.neg(v.dd)) is MDD_FALSE:
                    return True
                if mdd.conj(W.dd, v.dd) is MDD_FALSE:
                    return False
                raise NeedDecision(v)
            k = v.key()
            if k in W.decided:
                return W.decided[k]
            raise NeedDecision(v)
        if isinstance(v, SStr):
            return len(v.cs) > 0
        if isinstance(v, SChar):
            return True
        if isinstance(v, SInt):
            return self.truth(W, i_cmp("!=", v, 0))
        if isinstance(v, (int, float, str, bytes, tuple, list, dict, set, frozenset, range)):
            return bool(v)
        return self.models.truth_of_object(W, v)

    def concretize_int(self, W, v):
        if not isinstance(v, SInt):
            return v
        for k in range(v.lo, v.hi + 1):
            if self.truth(W, i_cmp("==", v, k)):
                return k
        raise EngineError("SInt outside its declared bounds")

    def concretize_char(self, W, c):
        if isinstance(c, str):
            return c
        cur = self.eng.mdd.values(W.dd, c.var)
        vals = list(dict.fromkeys(c.value_of(b) for b in c.var.alpha if b in cur))
        for a in vals[:-1]:
            if self.truth(W, c.eq(a)):
                return a
        return vals[-1]

    def concretize_str(self, W, s):
        if isinstance(s, str):
            return s
        return "".join(self.concretize_char(W, c) for c in chars(s))

    # ------------------------------------------------------------------ frames
    def interpretable_func(self, fn):
        if isinstance(fn, SFunc):
            return True
        if isinstance(fn, types.FunctionType):
            if fn in self.eng.extra_interp:
                return True
            mod = getattr(fn, "__module__", None) or ""
            if mod.startswith(self.eng.interp_prefixes):
                return True
            if fn.__code__.co_filename.startswith(self.eng.interp_files):
                return True
            # dataclass-generated methods of interpretable classes
            qn = fn.__qualname__
            g = fn.__globals__
            if "__dataclass_builtins_object__" in g or g.get("__name__", "").startswith(self.eng.interp_prefixes):
                return True
        return False

    def push_frame(self, W, fn, args, kwargs, ret="push"):
        if isinstance(fn, SFunc):
            code, g, defaults, kwdefaults, closure, name = fn.code, fn.g, fn.defaults, fn.kwdefaults, fn.closure, fn.name
        else:
            code, g, defaults, kwdefaults, closure, name = (fn.__code__, gref(fn.__globals__), fn.__defaults__,
                                                          fn.__kwdefaults__, fn.__closure__, fn.__name__)
        ci = CodeInfo.of(code)
        F = Frame(ci, g, fn)
        F.ret = ret
        self.bind_args(F, code, name, defaults, kwdefaults, args, kwargs, W)
        if closure:
            for nm, c in zip(code.co_freevars, closure):
                if isinstance(c, Cell):
                    F.cells[nm] = c
                else:
                    try:
                        F.cells[nm] = Cell(c.cell_contents)
                    except ValueError:
                        F.cells[nm] = Cell()
        self.eng.note_code(ci, fn)
        if ci.is_gen:
            gen = SGen(F)
            F.gen = gen
            # skip RETURN_GENERATOR; the POP_TOP that follows pops the first sent value
            assert ci.ops[0][0] in ("RETURN_GENERATOR", "COPY_FREE_VARS", "MAKE_CELL"), ci.ops[0]
            k = 0
            while ci.ops[k][0] != "RETURN_GENERATOR":
                self.exec_prologue_op(W, F, k)
                k += 1
            F.pc = k + 1
            return self.deliver(W, gen, ret)
        W.frames.append(F)
        if len(W.frames) > W.maxdepth:
            W.maxdepth = len(W.frames)
        if ci.code.co_filename.startswith(self.eng.interp_files):
            k = 0
            for G in W.frames:
                if G.ci is ci:
                    k += 1
            if k > W.maxrec[0]:
                W.maxrec = (k, ci.name)
        if len(W.frames) > self.eng.max_frames:
            raise PyRaise(RecursionError("pysym: frame depth limit"))
        return JUMPED

    def exec_prologue_op(self, W, F, k):
        op, arg, argval = F.ci.ops[k]
        if op == "COPY_FREE_VARS":
            return
        if op == "MAKE_CELL":
            F.cells[argval] = Cell(F.fast.pop(argval, NULL))
            return
        raise Unsupported(f"generator prologue {op}")

    def bind_args(self, F, code, name, defaults, kwdefaults, args, kwargs, W=None):
        argc = code.co_argcount
        kwonly = code.co_kwonlyargcount
        names = code.co_varnames
        fast = F.fast
        args = tuple(args)
        npos = min(len(args), argc)
        for i in range(npos):
            fast[names[i]] = args[i]
        idx = argc + kwonly
        if code.co_flags & CO_VARARGS:
            fast[names[idx]] = tuple(args[argc:])
            idx += 1
        elif len(args) > argc:
            pyraise(TypeError, f"{name}() takes {argc} positional arguments but {len(args)} were given")
        extra = None
        if code.co_flags & CO_VARKEYWORDS:
            extra = {}
            fast[names[idx]] = extra
        posonly = code.co_posonlyargcount
        for k, v in (kwargs or {}).items():
            if k in names[posonly:argc + kwonly]:
                if k in fast:
                    pyraise(TypeError, f"{name}() got multiple values for argument '{k}'")
                fast[k] = v
            elif extra is not None:
                extra[k] = v
            else:
                pyraise(TypeError, f"{name}() got an unexpected keyword argument '{k}'")
        defaults = defaults or ()
        nd = len(defaults)
        for i in range(argc):
            if names[i] not in fast:
                j = i - (argc - nd)
                if j >= 0:
                    fast[names[i]] = self.default_value(W, defaults[j])
                else:
                    pyraise(TypeError, f"{name}() missing required positional argument: '{names[i]}'")
        for i in range(argc, argc + kwonly):
            if names[i] not in fast:
                if kwdefaults and names[i] in kwdefaults:
                    fast[names[i]] = self.default_value(W, kwdefaults[names[i]])
                else:
                    pyraise(TypeError, f"{name}() missing required keyword-only argument: '{names[i]}'")

    @staticmethod
    def default_value(W, v):
        """A mutable default argument is ONE object shared by all calls (the classic pitfall).  The real default object
        must not be mutated by interpreted code (it would leak symbolic values into every other world and into native
        replays), so each world owns a copy of it - shared between the calls of that world, cloned with the world."""
        if W is not None and type(v) in (list, dict, set):
            key = ("default", id(v))
            if key not in W.tags:
                W.tags[key] = type(v)(v)
            return W.tags[key]
        return v

    def deliver(self, W, value, ret):
        """hand a call result to the current top frame according to ret mode"""
        F = W.frames[-1] if W.frames else None
        if ret == "push":
            F.stack.append(value)
        elif ret == "discard":
            pass
        elif ret == "negate":
            F.stack.append(self.py_not(W, value))
        elif isinstance(ret, tuple) and ret[0] == "const":
            F.stack.append(ret[1])
        elif isinstance(ret, tuple) and ret[0] == "init":
            if value is not None:
                raise PyRaise(TypeError("__init__() should return None"))
            F.stack.append(ret[1])
        else:
            raise EngineError(f"ret mode {ret}")
        return None

    def py_not(self, W, v):
        if isinstance(v, SBool):
            return b_not(v)
        return not self.truth(W, v)

    def do_return(self, W, value):
        F = W.frames.pop()
        if F.gen is not None:
            F.gen.state = "done"
            # generator exhausted: the consumer is a FOR_ITER in the frame below
            C = W.frames[-1]
            self.for_iter_exhausted(C)
            return
        if not W.frames:
            W.done = True
            W.result = value
            return
        if F.ret == "negate":
            # may need a decision: redo in caller context is impossible, so keep SBool negation lazy
            W.frames[-1].stack.append(b_not(value) if isinstance(value, SBool) else (not self._truth_nofork(value)))
            return
        self.deliver(W, value, F.ret)

    def _truth_nofork(self, v):
        if isinstance(v, (bool, int, str, type(None), list, tuple, dict)):
            return bool(v)
        if isinstance(v, SStr):
            return True if len(v.cs) else False
        raise Unsupported("negated call result of unsupported type")

    def for_iter_exhausted(self, C):
        # C.pc is at the FOR_ITER instruction
        t = C.ci.jt[C.pc]
        assert C.ci.ops[t][0] == "END_FOR"
        C.stack.pop()
        C.pc = t + 1

    def do_raise(self, W, exc):
        """propagate an interpreted exception object"""
        if not isinstance(exc, BaseException):
            exc = TypeError("exceptions must derive from BaseException")
        if getattr(exc, "__context__", None) is None and W.handled is not None and W.handled is not exc:
            try:
                exc.__context__ = W.handled
            except Exception:
                pass
        while W.frames:
            F = W.frames[-1]
            h = F.ci.handler(F.lasti)
            if h is not None:
                t, depth, lasti = h
                del F.stack[depth:]
                if lasti:
                    F.stack.append(F.lasti)
                F.stack.append(exc)
                F.pc = t
                return
            W.frames.pop()
            if F.gen is not None:
                F.gen.state = "done"
        W.done = True
        W.exc = exc

    # ------------------------------------------------------------------ main step
    def step(self, W):
        F = W.frames[-1]
        pc = F.pc
        op, arg, argval = F.ci.ops[pc]
        F.lasti = pc
        W.steps += 1
        self.eng.stats["steps"] += 1
        h = self.dispatch.get(op)
        if h is None:
            raise Unsupported(f"opcode {op} in {F.ci.name}")
        try:
            r = h(W, F, arg, argval)
        except PyRaise as pr:
            self.do_raise(W, pr.exc)
            return
        if r is not JUMPED:
            F.pc = pc + 1

    # ------------------------------------------------------------------ simple ops
    def op_RESUME(self, W, F, arg, argval): pass
    def op_NOP(self, W, F, arg, argval): pass
    def op_EXTENDED_ARG(self, W, F, arg, argval): pass
    def op_CACHE(self, W, F, arg, argval): pass

    def op_POP_TOP(self, W, F, arg, argval): F.stack.pop()
    def op_PUSH_NULL(self, W, F, arg, argval): F.stack.append(NULL)
    def op_COPY(self, W, F, arg, argval): F.stack.append(F.stack[-arg])

    def op_SWAP(self, W, F, arg, argval):
        s = F.stack
        s[-1], s[-arg] = s[-arg], s[-1]

    def op_END_FOR(self, W, F, arg, argval):
        F.stack.pop(); F.stack.pop()

    def op_LOAD_CONST(self, W, F, arg, argval): F.stack.append(argval)

    def op_LOAD_FAST(self, W, F, arg, argval):
        try:
            F.stack.append(F.fast[argval])
        except KeyError:
            pyraise(UnboundLocalError, f"cannot access local variable '{argval}'")
    op_LOAD_FAST_CHECK = op_LOAD_FAST

    def op_LOAD_FAST_AND_CLEAR(self, W, F, arg, argval):
        F.stack.append(F.fast.pop(argval, NULL))

    def op_STORE_FAST(self, W, F, arg, argval):
        v = F.stack.pop()
        if v is NULL:
            F.fast.pop(argval, None)
        else:
            F.fast[argval] = v

    def op_DELETE_FAST(self, W, F, arg, argval):
        if argval not in F.fast:
            pyraise(UnboundLocalError, argval)
        del F.fast[argval]

    def op_LOAD_GLOBAL(self, W, F, arg, argval):
        d = F.g.d
        if argval in d:
            v = d[argval]
        else:
            b = d.get("__builtins__", __builtins__)
            b = b if isinstance(b, dict) else vars(b)
            if argval in b:
                v = b[argval]
            else:
                pyraise(NameError, f"name '{argval}' is not defined")
        if arg & 1:
            F.stack.append(NULL)
        F.stack.append(v)

    def op_LOAD_NAME(self, W, F, arg, argval):
        if argval in F.fast:
            F.stack.append(F.fast[argval]); return
        return self.op_LOAD_GLOBAL(W, F, 0, argval)

    def op_MAKE_CELL(self, W, F, arg, argval):
        F.cells[argval] = Cell(F.fast.pop(argval, NULL))

    def op_COPY_FREE_VARS(self, W, F, arg, argval): pass  # done in push_frame

    def op_LOAD_CLOSURE(self, W, F, arg, argval):
        F.stack.append(F.cells[argval])

    def op_LOAD_DEREF(self, W, F, arg, argval):
        v = F.cells[argval].v
        if v is NULL:
            pyraise(NameError, f"free variable '{argval}' referenced before assignment")
        F.stack.append(v)

    def op_STORE_DEREF(self, W, F, arg, argval):
        F.cells[argval].v = F.stack.pop()
        W.mut += 1

    def op_MAKE_FUNCTION(self, W, F, arg, argval):
        s = F.stack
        code = s.pop()
        closure = s.pop() if arg & 0x08 else None
        if arg & 0x04:
            s.pop()
        kwd = s.pop() if arg & 0x02 else None
        dfl = s.pop() if arg & 0x01 else None
        s.append(SFunc(code, F.g, dfl, kwd, closure, code.co_name))

    def op_RETURN_VALUE(self, W, F, arg, argval):
        self.do_return(W, F.stack.pop())
        return JUMPED

    def op_RETURN_CONST(self, W, F, arg, argval):
        self.do_return(W, argval)
        return JUMPED

    def op_YIELD_VALUE(self, W, F, arg, argval):
        v = F.stack.pop()
        F.pc += 1
        F.gen.state = "suspended"
        W.frames.pop()
        C = W.frames[-1]
        C.stack.append(v)
        C.pc += 1  # past FOR_ITER
        return JUMPED

    def op_JUMP_FORWARD(self, W, F, arg, argval):
        F.pc = F.ci.jt[F.pc]
        return JUMPED

    def op_JUMP_BACKWARD(self, W, F, arg, argval):
        F.pc = F.ci.jt[F.pc]
        W.at_loop = True
        return JUMPED
    op_JUMP_BACKWARD_NO_INTERRUPT = op_JUMP_BACKWARD

    def _truth_tos(self, W, F):
        """truth of TOS; if it needs an interpreted __bool__/__len__, replace TOS by that call's result and
        re-execute the current instruction afterwards"""
        from .models import NeedTruthCall
        try:
            return self.truth(W, F.stack[-1])
        except NeedTruthCall as n:
            F.stack.pop()
            self.push_frame(W, n.fn, (n.obj,), {}, "push")   # F.pc stays on this instruction
            return JUMPED

    def op_POP_JUMP_IF_TRUE(self, W, F, arg, argval):
        t = self._truth_tos(W, F)
        if t is JUMPED:
            return JUMPED
        F.stack.pop()
        if t:
            F.pc = F.ci.jt[F.pc]
            return JUMPED

    def op_POP_JUMP_IF_FALSE(self, W, F, arg, argval):
        t = self._truth_tos(W, F)
        if t is JUMPED:
            return JUMPED
        F.stack.pop()
        if not t:
            F.pc = F.ci.jt[F.pc]
            return JUMPED

    def op_POP_JUMP_IF_NONE(self, W, F, arg, argval):
        if F.stack.pop() is None:
            F.pc = F.ci.jt[F.pc]
            return JUMPED

    def op_POP_JUMP_IF_NOT_NONE(self, W, F, arg, argval):
        if F.stack.pop() is not None:
            F.pc = F.ci.jt[F.pc]
            return JUMPED

    def op_UNARY_NOT(self, W, F, arg, argval):
        from .models import NeedTruthCall
        v = F.stack[-1]
        try:
            r = self.py_not(W, v)
        except NeedTruthCall as n:
            F.stack.pop()
            self.push_frame(W, n.fn, (n.obj,), {}, "push")
            return JUMPED
        F.stack[-1] = r

    def op_UNARY_NEGATIVE(self, W, F, arg, argval):
        v = F.stack[-1]
        if isinstance(v, SInt):
            F.stack[-1] = i_arith("-", 0, v)
        else:
            F.stack[-1] = -v

    def op_IS_OP(self, W, F, arg, argval):
        b = F.stack.pop(); a = F.stack.pop()
        r = self.models.is_same(a, b)
        F.stack.append((not r) if arg else r)

    # ------------------------------------------------------------------ builders
    def op_BUILD_TUPLE(self, W, F, arg, argval):
        if arg:
            v = tuple(F.stack[-arg:]); del F.stack[-arg:]
        else:
            v = ()
        F.stack.append(v)

    def op_BUILD_LIST(self, W, F, arg, argval):
        if arg:
            v = list(F.stack[-arg:]); del F.stack[-arg:]
        else:
            v = []
        F.stack.append(v)

    def op_BUILD_SET(self, W, F, arg, argval):
        items = F.stack[len(F.stack) - arg:] if arg else []
        v = self.models.make_set(W, items)
        if arg:
            del F.stack[-arg:]
        F.stack.append(v)

    def op_BUILD_MAP(self, W, F, arg, argval):
        items = F.stack[len(F.stack) - 2 * arg:] if arg else []
        d = {}
        for i in range(0, len(items), 2):
            self.models.dict_set(W, d, items[i], items[i + 1], fresh=True)
        if arg:
            del F.stack[-2 * arg:]
        F.stack.append(d)

    def op_BUILD_CONST_KEY_MAP(self, W, F, arg, argval):
        keys = F.stack[-1]
        vals = F.stack[-1 - arg:-1]
        d = dict(zip(keys, vals))
        del F.stack[-1 - arg:]
        F.stack.append(d)

    def op_BUILD_STRING(self, W, F, arg, argval):
        parts = F.stack[-arg:] if arg else []
        out = []
        for p in parts:
            out.extend(chars(p))
        if arg:
            del F.stack[-arg:]
        F.stack.append(mk(out))

    def op_BUILD_SLICE(self, W, F, arg, argval):
        if arg == 3:
            st = F.stack.pop()
        else:
            st = None
        hi = F.stack.pop(); lo = F.stack.pop()
        F.stack.append(slice(self.concretize_int(W, lo), self.concretize_int(W, hi), st))

    def op_LIST_APPEND(self, W, F, arg, argval):
        v = F.stack.pop()
        F.stack[-arg].append(v); W.mut += 1

    def op_SET_ADD(self, W, F, arg, argval):
        v = F.stack[-1]
        self.models.set_add(W, F.stack[-1 - arg], v)
        F.stack.pop()

    def op_MAP_ADD(self, W, F, arg, argval):
        v = F.stack[-1]; k = F.stack[-2]
        self.models.dict_set(W, F.stack[-2 - arg], k, v)
        del F.stack[-2:]

    def op_LIST_EXTEND(self, W, F, arg, argval):
        it = F.stack[-1]
        if isinstance(it, SGen):
            raise Unsupported("LIST_EXTEND with generator")
        items = self.models.iter_to_list(W, it)
        F.stack.pop()
        F.stack[-arg].extend(items); W.mut += 1

    def op_SET_UPDATE(self, W, F, arg, argval):
        items = self.models.iter_to_list(W, F.stack[-1])
        tgt = F.stack[-1 - arg]
        for x in items:
            self.models.set_add(W, tgt, x)
        F.stack.pop()

    def op_DICT_UPDATE(self, W, F, arg, argval):
        src = F.stack[-1]
        tgt = F.stack[-1 - arg]
        for k, v in list(src.items()):
            self.models.dict_set(W, tgt, k, v)
        F.stack.pop()
    op_DICT_MERGE = op_DICT_UPDATE

    def op_UNPACK_SEQUENCE(self, W, F, arg, argval):
        seq = F.stack[-1]
        if isinstance(seq, SGen):
            raise Unsupported("unpack generator")
        items = self.models.iter_to_list(W, seq)
        if len(items) != arg:
            pyraise(ValueError, f"not enough/too many values to unpack (expected {arg}, got {len(items)})")
        F.stack.pop()
        F.stack.extend(reversed(items))

    def op_UNPACK_EX(self, W, F, arg, argval):
        before, after = arg & 0xFF, arg >> 8
        items = self.models.iter_to_list(W, F.stack[-1])
        if len(items) < before + after:
            pyraise(ValueError, "not enough values to unpack")
        F.stack.pop()
        out = items[:before] + [items[before:len(items) - after]] + items[len(items) - after:]
        F.stack.extend(reversed(out))

    def op_FORMAT_VALUE(self, W, F, arg, argval):
        have_spec = bool(arg & 0x04)
        conv = arg & 0x03
        spec = F.stack[-1] if have_spec else ""
        v = F.stack[-2] if have_spec else F.stack[-1]
        r = self.models.format_value(W, v, conv, spec)
        if isinstance(r, Redirect):
            n = 2 if have_spec else 1
            del F.stack[-n:]
            return self.call_redirect(W, F, r)
        n = 2 if have_spec else 1
        del F.stack[-n:]
        F.stack.append(r)

    # ------------------------------------------------------------------ attribute access
    def op_LOAD_ATTR(self, W, F, arg, argval):
        obj = F.stack[-1]
        name = argval
        r = self.models.get_attr(W, obj, name)
        F.stack.pop()
        if arg & 1:
            F.stack.append(NULL)
        if isinstance(r, Redirect):
            return self.call_redirect(W, F, r)
        F.stack.append(r)

    def op_LOAD_SUPER_ATTR(self, W, F, arg, argval):
        self_ = F.stack[-1]; cls = F.stack[-2]; sup = F.stack[-3]
        if sup is not super:
            raise Unsupported("shadowed super")
        r = self.models.super_attr(W, cls, self_, argval)
        del F.stack[-3:]
        if arg & 1:
            F.stack.append(NULL)
        F.stack.append(r)

    def op_STORE_ATTR(self, W, F, arg, argval):
        obj = F.stack[-1]; val = F.stack[-2]
        r = self.models.set_attr(W, obj, argval, val)
        del F.stack[-2:]
        if isinstance(r, Redirect):
            return self.call_redirect(W, F, r)

    def op_DELETE_ATTR(self, W, F, arg, argval):
        obj = F.stack.pop()
        try:
            del obj.__dict__[argval]
        except KeyError:
            pyraise(AttributeError, argval)
        W.mut += 1

    # ------------------------------------------------------------------ operators
    def op_BINARY_OP(self, W, F, arg, argval):
        b = F.stack[-1]; a = F.stack[-2]
        sym = F.ci.nbops[arg]
        r = self.models.binary(W, sym, a, b)
        del F.stack[-2:]
        if isinstance(r, Redirect):
            return self.call_redirect(W, F, r)
        F.stack.append(r)

    def op_COMPARE_OP(self, W, F, arg, argval):
        b = F.stack[-1]; a = F.stack[-2]
        r = self.models.compare(W, argval, a, b)
        del F.stack[-2:]
        if isinstance(r, Redirect):
            return self.call_redirect(W, F, r)
        F.stack.append(r)

    def op_CONTAINS_OP(self, W, F, arg, argval):
        cont = F.stack[-1]; x = F.stack[-2]
        r = self.models.contains(W, cont, x)
        del F.stack[-2:]
        if isinstance(r, Redirect):
            if arg:
                r.ret = "negate"
            return self.call_redirect(W, F, r)
        F.stack.append(self.py_not_lazy(r) if arg else r)

    def py_not_lazy(self, r):
        if isinstance(r, SBool):
            return b_not(r)
        return not r

    def op_BINARY_SUBSCR(self, W, F, arg, argval):
        k = F.stack[-1]; o = F.stack[-2]
        r = self.models.getitem(W, o, k)
        del F.stack[-2:]
        if isinstance(r, Redirect):
            return self.call_redirect(W, F, r)
        F.stack.append(r)

    def op_BINARY_SLICE(self, W, F, arg, argval):
        hi = F.stack[-1]; lo = F.stack[-2]; o = F.stack[-3]
        sl = slice(self.concretize_int(W, lo), self.concretize_int(W, hi))
        r = self.models.getitem(W, o, sl)
        del F.stack[-3:]
        F.stack.append(r)

    def op_STORE_SLICE(self, W, F, arg, argval):
        hi = F.stack[-1]; lo = F.stack[-2]; o = F.stack[-3]; v = F.stack[-4]
        if not isinstance(o, list):
            raise Unsupported("STORE_SLICE on non-list")
        o[slice(lo, hi)] = self.models.iter_to_list(W, v); W.mut += 1
        del F.stack[-4:]

    def op_STORE_SUBSCR(self, W, F, arg, argval):
        k = F.stack[-1]; o = F.stack[-2]; v = F.stack[-3]
        r = self.models.setitem(W, o, k, v)
        del F.stack[-3:]
        if isinstance(r, Redirect):
            return self.call_redirect(W, F, r)

    def op_DELETE_SUBSCR(self, W, F, arg, argval):
        k = F.stack[-1]; o = F.stack[-2]
        r = self.models.delitem(W, o, k)
        del F.stack[-2:]
        if isinstance(r, Redirect):
            return self.call_redirect(W, F, r)

    # ------------------------------------------------------------------ iteration
    def op_GET_ITER(self, W, F, arg, argval):
        v = F.stack[-1]
        r = self.models.get_iter(W, v)
        F.stack[-1] = r

    def op_FOR_ITER(self, W, F, arg, argval):
        it = F.stack[-1]
        if isinstance(it, SGen):
            if it.state == "done":
                self.for_iter_exhausted(F)
                return JUMPED
            G = it.frame
            G.stack.append(None)
            it.state = "running"
            W.frames.append(G)
            return JUMPED
        ok, v = self.models.iter_next(W, it)
        if ok:
            F.stack.append(v)
            return None
        self.for_iter_exhausted(F)
        return JUMPED

    # ------------------------------------------------------------------ exceptions
    def op_PUSH_EXC_INFO(self, W, F, arg, argval):
        exc = F.stack.pop()
        F.stack.append(W.handled)
        W.handled = exc
        F.stack.append(exc)

    def op_POP_EXCEPT(self, W, F, arg, argval):
        W.handled = F.stack.pop()

    def op_CHECK_EXC_MATCH(self, W, F, arg, argval):
        t = F.stack.pop()
        exc = F.stack[-1]
        try:
            F.stack.append(isinstance(exc, t))
        except TypeError:
            pyraise(TypeError, "catching classes that do not inherit from BaseException is not allowed")

    def op_RERAISE(self, W, F, arg, argval):
        exc = F.stack.pop()
        raise PyRaise(exc)

    def op_RAISE_VARARGS(self, W, F, arg, argval):
        if arg == 0:
            if W.handled is None:
                pyraise(RuntimeError, "No active exception to reraise")
            raise PyRaise(W.handled)
        cause = F.stack[-1] if arg == 2 else NULL
        exc = F.stack[-2] if arg == 2 else F.stack[-1]
        if isinstance(exc, type):
            if not issubclass(exc, BaseException):
                pyraise(TypeError, "exceptions must derive from BaseException")
            # instantiate with no args (may need interpretation)
            r = self.construct(W, F, exc, (), {})
            if r is JUMPED:
                raise Unsupported("raise Class with interpreted __init__")
            exc = r
        del F.stack[-arg:]
        if cause is not NULL:
            if isinstance(cause, type):
                cause = cause()
            try:
                exc.__cause__ = cause
            except Exception:
                pass
        raise PyRaise(exc)

    def op_LOAD_ASSERTION_ERROR(self, W, F, arg, argval):
        F.stack.append(AssertionError)

    def op_BEFORE_WITH(self, W, F, arg, argval):
        mgr = F.stack[-1]
        ex = self.models.get_attr(W, mgr, "__exit__")
        en = self.models.get_attr(W, mgr, "__enter__")
        if isinstance(ex, Redirect) or isinstance(en, Redirect):
            raise Unsupported("property-based context manager")
        F.stack[-1] = ex
        F.pc += 1
        r = self.do_call(W, F, en, (), {})
        if r is not JUMPED:
            F.stack.append(r)
        return JUMPED

    def op_WITH_EXCEPT_START(self, W, F, arg, argval):
        exc = F.stack[-1]
        exit_fn = F.stack[-4]
        F.pc += 1
        r = self.do_call(W, F, exit_fn, (type(exc), exc, None), {})
        if r is not JUMPED:
            F.stack.append(r)
        return JUMPED

    def op_CALL_INTRINSIC_1(self, W, F, arg, argval):
        v = F.stack[-1]
        if arg == 6:    # LIST_TO_TUPLE
            F.stack[-1] = tuple(v)
        elif arg == 3:  # STOPITERATION_ERROR
            if isinstance(v, StopIteration):
                F.stack[-1] = RuntimeError("generator raised StopIteration")
        elif arg == 5:  # UNARY_POSITIVE
            F.stack[-1] = +v
        else:
            raise Unsupported(f"CALL_INTRINSIC_1 {arg}")

    def op_IMPORT_NAME(self, W, F, arg, argval):
        fromlist = F.stack.pop()
        level = F.stack.pop()
        try:
            mod = __import__(argval, F.g.d, None, fromlist, level)
        except ImportError as e:
            raise PyRaise(e)
        F.stack.append(mod)

    def op_IMPORT_FROM(self, W, F, arg, argval):
        mod = F.stack[-1]
        try:
            F.stack.append(getattr(mod, argval))
        except AttributeError:
            pyraise(ImportError, f"cannot import name {argval}")

    def op_STORE_GLOBAL(self, W, F, arg, argval):
        raise Unsupported("assignment to a module global inside interpreted code")

    # ------------------------------------------------------------------ calls
    def op_KW_NAMES(self, W, F, arg, argval):
        F.kwnames = argval

    def op_CALL(self, W, F, arg, argval):
        s = F.stack
        n = arg
        base = len(s) - n
        fn = s[base - 1]
        first = s[base - 2]
        args = s[base:]
        if first is not NULL:
            # (method, self) form
            args = [fn] + args
            fn = first
        kwn = F.kwnames
        if kwn:
            nk = len(kwn)
            kwargs = dict(zip(kwn, args[-nk:]))
            args = args[:-nk]
        else:
            kwargs = {}
        # evaluate natively-modelled calls before touching the stack (decision safety)
        pc = F.pc
        F.pc = pc + 1
        F.kwnames = ()
        try:
            r = self.do_call(W, F, fn, tuple(args), kwargs, stack_cut=base - 2)
        except NeedDecision:
            F.pc = pc
            F.kwnames = kwn
            raise
        except PyRaise:
            F.pc = pc
            raise
        if r is JUMPED:
            return JUMPED
        del s[base - 2:]
        s.append(r)
        return JUMPED

    def op_CALL_FUNCTION_EX(self, W, F, arg, argval):
        s = F.stack
        kwargs = s[-1] if arg & 1 else {}
        k = 1 if arg & 1 else 0
        star = s[-1 - k]
        fn = s[-2 - k]
        cut = len(s) - 3 - k
        if s[cut] is not NULL:
            raise Unsupported("CALL_FUNCTION_EX with method form")
        pc = F.pc
        if isinstance(star, SGen):
            from . import prelude
            fn, args, kwargs = prelude._apply_star, (fn, star, dict(kwargs)), {}
        else:
            args = tuple(self.models.iter_to_list(W, star))
            kwargs = dict(kwargs)
        F.pc = pc + 1
        try:
            r = self.do_call(W, F, fn, args, kwargs, stack_cut=cut)
        except (NeedDecision, PyRaise):
            F.pc = pc
            raise
        if r is JUMPED:
            return JUMPED
        del s[cut:]
        s.append(r)
        return JUMPED

    def call_redirect(self, W, F, r):
        """the current instruction's operands are already popped; call r and continue after it"""
        F.pc += 1
        x = self.do_call(W, F, r.fn, r.args, r.kwargs, ret=r.ret)
        if x is not JUMPED and r.ret != "discard":
            F.stack.append(x)
        return JUMPED

    def do_call(self, W, F, fn, args, kwargs, ret="push", stack_cut=None):
        """Returns a value (native result) or JUMPED (a frame was pushed; the result will be
        delivered according to `ret`).  If stack_cut is given the caller's stack is truncated
        there just before a frame is pushed."""
        depth = 0
        while True:
            depth += 1
            if depth > 20:
                raise EngineError("redirect loop")
            if isinstance(fn, BM):
                args = (fn.self,) + tuple(args)
                fn = fn.func
                continue
            if isinstance(fn, types.MethodType):
                args = (fn.__self__,) + tuple(args)
                fn = fn.__func__
                continue
            if isinstance(fn, (SFunc, types.FunctionType)):
                if fn in self.eng.native_models:
                    r = self.eng.native_models[fn](self, W, args, kwargs)
                elif isinstance(fn, types.FunctionType) and fn in self.models.pyfunc_table:
                    r = self.models.pyfunc_table[fn](W, args, kwargs)
                elif self.interpretable_func(fn) or self.eng.interpret_any_python:
                    # generators passed to interpreted code are fine
                    if stack_cut is not None:
                        # bind first (may raise TypeError) then cut
                        pass
                    if stack_cut is not None:
                        saved = F.stack[stack_cut:]
                        del F.stack[stack_cut:]
                        try:
                            return self.push_frame(W, fn, args, kwargs, ret) or JUMPED
                        except PyRaise:
                            F.stack.extend(saved)
                            raise
                    return self.push_frame(W, fn, args, kwargs, ret) or JUMPED
                else:
                    r = self.models.call_python_function(W, fn, args, kwargs)
            elif isinstance(fn, type) and self.models.class_model(fn) is not None and any(isinstance(a, SGen) for a in args):
                from . import prelude
                fn, args, kwargs = prelude._materialize_call, (fn, tuple(args), dict(kwargs)), {}
                continue
            elif isinstance(fn, type):
                if stack_cut is not None:
                    saved = F.stack[stack_cut:]
                    del F.stack[stack_cut:]
                    try:
                        r = self.construct(W, F, fn, args, kwargs)
                    except (PyRaise, NeedDecision):
                        F.stack.extend(saved)
                        raise
                    if r is JUMPED:
                        return JUMPED
                    F.stack.extend(saved)
                else:
                    r = self.construct(W, F, fn, args, kwargs)
                    if r is JUMPED:
                        return JUMPED
            else:
                r = self.models.call_native(W, fn, args, kwargs)
            if isinstance(r, Redirect):
                fn, args, kwargs = r.fn, r.args, r.kwargs
                if r.ret != "push":
                    if ret != "push":
                        raise EngineError("nested ret modes")
                    ret = r.ret
                    if ret == "discard" and stack_cut is not None:
                        ret = ("const", None)      # reached from a CALL instruction: its result (None) is expected on the stack
                continue
            if ret == "negate":
                return self.py_not(W, r)
            if isinstance(ret, tuple):
                return ret[1]
            return r

    def construct(self, W, F, cls, args, kwargs):
        m = self.models.class_model(cls)
        if m is not None:
            return m(W, cls, args, kwargs)
        if any(isinstance(a, SGen) for a in args):
            raise Unsupported("generator passed to constructor")
        init = self.models.mro_lookup(cls, "__init__")
        new = self.models.mro_lookup(cls, "__new__")
        if isinstance(new, staticmethod):
            new = new.__func__
        if isinstance(new, types.FunctionType):
            raise Unsupported(f"custom __new__ on {cls}")
        if not self.models.world_owned_class(cls):
            return self.models.construct_foreign(W, cls, args, kwargs)
        try:
            if issubclass(cls, BaseException):
                obj = cls.__new__(cls, *args)
            else:
                obj = object.__new__(cls)
        except TypeError as e:
            raise PyRaise(e)
        if isinstance(init, (types.FunctionType,)) and self.interpretable_func(init):
            self.push_frame(W, init, (obj,) + tuple(args), kwargs, ret=("init", obj))
            return JUMPED
        if init is object.__init__:
            if args or kwargs:
                pyraise(TypeError, f"{cls.__name__}() takes no arguments")
            return obj
        if init is BaseException.__init__ or getattr(init, "__objclass__", None) is not None:
            if kwargs:
                pyraise(TypeError, f"{cls.__name__}() takes no keyword arguments")
            return obj
        raise Unsupported(f"constructor of {cls} ({init})")
