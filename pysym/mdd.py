"""Multi-valued decision diagrams over the symbolic characters (ordered by creation index).

The unary part of a world's guard (membership constraints of single characters) is kept exactly
as an MDD: conjoining a constraint, union (merge of worlds) and emptiness are solver-free, and
the diagram stays small for left-to-right scanners (its nodes correspond to automaton states).
Converted to z3 only when a query needs it."""
import z3

TRUE = ("T",)
FALSE = ("F",)


class Node:
    __slots__ = ("var", "edges", "id", "z")

    def __init__(self, var, edges, id_):
        self.var = var        # CharVar
        self.edges = edges    # tuple of (bitmask of values, child) ; disjoint, children != FALSE, pairwise distinct
        self.id = id_
        self.z = None

    def __deepcopy__(self, memo):
        return self


class MDD:
    def __init__(self):
        self.table = {}
        self.next = 1
        self.r_cache = {}
        self.u_cache = {}
        self.c_cache = {}
        self.n_cache = {}

    @staticmethod
    def nid(n):
        return n.id if isinstance(n, Node) else (0 if n is TRUE else -1)

    def mk(self, var, pairs):
        """pairs: iterable of (values, child)"""
        by_child = {}
        kids = {}
        for vals, ch in pairs:
            if ch is FALSE or not vals:
                continue
            k = ch.id if ch.__class__ is Node else 0
            by_child[k] = by_child.get(k, 0) | vals
            kids[k] = ch
        if not by_child:
            return FALSE
        if len(by_child) == 1:
            (k, vals), = by_child.items()
            if vals == var.fullmask:
                return kids[k]
        key = (var.idx, tuple(sorted(by_child.items())))
        n = self.table.get(key)
        if n is None:
            edges = tuple((by_child[k], kids[k]) for k in sorted(by_child))
            n = self.table[key] = Node(var, edges, self.next)
            self.next += 1
        return n

    def restrict(self, n, var, allowed):
        """n AND (var in allowed)"""
        if n is FALSE:
            return FALSE
        if allowed == var.fullmask:
            return n
        ck = (self.nid(n), var.idx, allowed)
        r = self.r_cache.get(ck)
        if r is not None:
            return r
        if n is TRUE or n.var.idx > var.idx:
            r = self.mk(var, [(allowed, n)])
        elif n.var.idx == var.idx:
            r = self.mk(var, [(vals & allowed, ch) for vals, ch in n.edges])
        else:
            pairs = [(vals, self.restrict(ch, var, allowed)) for vals, ch in n.edges]
            r = self.mk(n.var, pairs)
        self.r_cache[ck] = r
        return r

    def union(self, a, b):
        if a is b or b is FALSE:
            return a
        if a is FALSE:
            return b
        if a is TRUE or b is TRUE:
            return TRUE
        ia, ib = a.id, b.id
        ck = (ia, ib) if ia < ib else (ib, ia)
        r = self.u_cache.get(ck)
        if r is not None:
            return r
        if a.var.idx == b.var.idx:
            var = a.var
            pairs = []
            for va, ca in a.edges:
                left = va
                for vb, cb in b.edges:
                    inter = va & vb
                    if inter:
                        pairs.append((inter, self.union(ca, cb)))
                        left = left & ~inter
                if left:
                    pairs.append((left, ca))
            cover_a = 0
            for va, _ in a.edges:
                cover_a |= va
            for vb, cb in b.edges:
                left = vb & ~cover_a
                if left:
                    pairs.append((left, cb))
            r = self.mk(var, pairs)
        else:
            if a.var.idx > b.var.idx:
                a, b = b, a
            # a tests an earlier variable; b does not constrain it
            var = a.var
            pairs = [(va, self.union(ca, b)) for va, ca in a.edges]
            cover = 0
            for va, _ in a.edges:
                cover |= va
            left = var.fullmask & ~cover
            if left:
                pairs.append((left, b))
            r = self.mk(var, pairs)
        self.u_cache[ck] = r
        return r

    def conj(self, a, b):
        if a is FALSE or b is FALSE:
            return FALSE
        if a is TRUE or a is b:
            return b
        if b is TRUE:
            return a
        ia, ib = a.id, b.id
        ck = (ia, ib) if ia < ib else (ib, ia)
        r = self.c_cache.get(ck)
        if r is not None:
            return r
        if a.var.idx == b.var.idx:
            pairs = []
            for va, ca in a.edges:
                for vb, cb in b.edges:
                    inter = va & vb
                    if inter:
                        pairs.append((inter, self.conj(ca, cb)))
            r = self.mk(a.var, pairs)
        else:
            if a.var.idx > b.var.idx:
                a, b = b, a
            r = self.mk(a.var, [(va, self.conj(ca, b)) for va, ca in a.edges])
        self.c_cache[ck] = r
        return r

    def neg(self, a):
        if a is TRUE:
            return FALSE
        if a is FALSE:
            return TRUE
        r = self.n_cache.get(a.id)
        if r is not None:
            return r
        pairs = []
        cover = 0
        for va, ca in a.edges:
            cover |= va
            pairs.append((va, self.neg(ca)))
        left = a.var.fullmask & ~cover
        if left:
            pairs.append((left, TRUE))
        r = self.mk(a.var, pairs)
        self.n_cache[a.id] = r
        return r

    def any_model(self, n):
        """one satisfying assignment {CharVar: char} (unconstrained variables are absent)"""
        out = {}
        while isinstance(n, Node):
            vals, ch = n.edges[0]
            out[n.var] = next(a for a in n.var.alpha if vals & n.var.bit[a])
            n = ch
        return out if n is TRUE else None

    def values(self, n, var):
        """set of values of var that occur in some satisfying assignment (over-approx by projection)"""
        out = set()
        seen = set()
        stack = [n]
        while stack:
            x = stack.pop()
            if x is FALSE:
                continue
            if x is TRUE or x.var.idx > var.idx:
                return set(var.full)
            if x.id in seen:
                continue
            seen.add(x.id)
            if x.var.idx == var.idx:
                for vals, ch in x.edges:
                    out |= var.unmask(vals)
            else:
                for vals, ch in x.edges:
                    stack.append(ch)
        return out

    def to_z3(self, n):
        if n is TRUE:
            return z3.BoolVal(True)
        if n is FALSE:
            return z3.BoolVal(False)
        if n.z is not None:
            return n.z
        stack = [n]
        while stack:
            x = stack[-1]
            if x.z is not None:
                stack.pop()
                continue
            pend = [ch for _, ch in x.edges if isinstance(ch, Node) and ch.z is None]
            if pend:
                stack.extend(pend)
                continue
            alts = []
            for vals, ch in x.edges:
                c = x.var.domain_constraint(x.var.unmask(vals))
                if ch is TRUE:
                    alts.append(c)
                else:
                    alts.append(z3.And(c, ch.z))
            x.z = z3.Or(alts) if len(alts) > 1 else alts[0]
            stack.pop()
        return n.z

    def size(self, n):
        seen = set()
        stack = [n]
        while stack:
            x = stack.pop()
            if not isinstance(x, Node) or x.id in seen:
                continue
            seen.add(x.id)
            for _, ch in x.edges:
                stack.append(ch)
        return len(seen)


THE = MDD()
