"""Shared check harness: task pool, obligations (solver queries), replay, known findings,
evidence files, exit codes.  Exit codes: 0 = every query unsat within the bounds (known findings
listed), 1 = reproduced violation (VIOLATION line), 2 = inconclusive / harness error."""
import argparse
import hashlib
import json
import multiprocessing as mp
import os
import sys
import time
import traceback

VERIF = os.path.dirname(os.path.dirname(os.path.abspath(__file__)))
KNOWN_FILE = os.path.join(VERIF, "known_findings.json")
# evidence/ and replays/ go to /verif unless VERIF_OUT redirects them (used only when a seeded change is
# evaluated against a scratch worktree, so that such runs never overwrite evidence of the real tree)
OUT = os.environ.get("VERIF_OUT", VERIF)


class HarnessError(BaseException):
    """raised when the check's own code fails: never a verdict (the task ends as an error, exit 2)"""


def guard_repo_exception(ex):
    """Called by replay functions before they report 'the code under test raised ...': the exception must have passed
    through a frame of the code under test.  An exception raised by the check's own driver / oracle (a typo, a wrong
    call) would otherwise be 'reproduced' by the replay - which runs the same driver - and be reported as a violation."""
    root = os.environ.get("VERIF_REPO", "/repo").rstrip("/") + "/"
    tb = ex.__traceback__
    while tb is not None:
        if tb.tb_frame.f_code.co_filename.startswith(root):
            return
        tb = tb.tb_next
    raise HarnessError(f"exception raised outside the code under test: {type(ex).__name__}: {ex}")


def load_known(prop):
    try:
        with open(KNOWN_FILE) as f:
            d = json.load(f)
    except FileNotFoundError:
        return {}
    return {k["key"]: k for k in d.get("known", []) if k.get("property") == prop}


class TaskResult(dict):
    pass


def _run_task(packed):
    fn, name, kwargs = packed
    t0 = time.time()
    import logging
    logging.disable(logging.CRITICAL)
    try:
        r = fn(**kwargs)
        r = dict(r or {})
        r.setdefault("status", "ok")
    except BaseException as e:  # noqa
        from pysym.values import Unsupported
        from pysym.engine import Budget
        kind = "budget" if isinstance(e, Budget) else ("unsupported" if isinstance(e, Unsupported) else "error")
        r = {"status": kind, "error": f"{type(e).__name__}: {e}", "trace": traceback.format_exc()[-3000:]}
    r["task"] = name
    r["wall_s"] = round(time.time() - t0, 3)
    return r


class Recorder:
    """used inside a task: collects obligations, violations, samples, stats"""

    def __init__(self, eng=None):
        self.eng = eng
        self.obligations = 0
        self.unsat = 0
        self.violations = []
        self.samples = []
        self.validated = 0
        self.vacuity = {}
        self.notes = []

    def require(self, W, bad, tag, replay, exclude=None, describe=None):
        """Obligation: guard(W) and bad must be unsat.  bad: bool/SBool/z3.
        replay(model) -> None if the counterexample does NOT reproduce on the real code, else a
        JSON-able dict describing it (must contain 'input').  exclude: dict key -> z3/SBool
        condition describing known-finding classes."""
        from pysym.values import b_z3
        import z3
        eng = self.eng
        self.obligations += 1
        if bad is False:
            self.unsat += 1
            return True
        badz = bad if isinstance(bad, z3.ExprRef) else b_z3(bad)
        sat, m = eng.query(W, badz)
        if not sat:
            self.unsat += 1
            return True
        seen_excl = []
        for _ in range(6):
            rep = replay(m)
            if rep is None:
                self.violations.append({"tag": tag, "kind": "nonreproducing", "model": str(m)[:500]})
                return False
            rep = dict(rep)
            rep["tag"] = tag
            key = rep.get("known_key")
            self.violations.append(rep)
            if key is None or exclude is None or key not in exclude or key in seen_excl:
                return False
            # known finding class: exclude it and look for a different counterexample
            seen_excl.append(key)
            badz = z3.And(badz, z3.Not(b_z3(exclude[key]) if not isinstance(exclude[key], z3.ExprRef) else exclude[key]))
            sat, m = eng.query(W, badz)
            if not sat:
                return False
        return False

    def witness(self, name, W, cond=True):
        """vacuity twin: record that `cond` is reachable in W"""
        if self.vacuity.get(name):
            return
        sat, m = self.eng.query(W, cond)
        if sat:
            self.vacuity[name] = True
        else:
            self.vacuity.setdefault(name, False)

    def result(self, **extra):
        st = dict(self.eng.stats) if self.eng is not None else {}
        d = {"obligations": self.obligations, "unsat": self.unsat, "violations": self.violations,
             "samples": self.samples[:6], "validated": self.validated, "vacuity": self.vacuity, "stats": st,
             "notes": self.notes}
        if self.eng is not None:
            d["functions"] = self.eng.functions_encoded()
        d.update(extra)
        return d


class Check:
    def __init__(self, prop, description):
        ap = argparse.ArgumentParser()
        ap.add_argument("--tier", default=os.environ.get("VERIF_TIER", "quick"))
        ap.add_argument("--jobs", type=int, default=int(os.environ.get("VERIF_JOBS", "16")))
        ap.add_argument("--only", default=None, help="substring filter on task names (debugging)")
        ap.add_argument("--replay", default=None)
        self.args = ap.parse_args()
        self.prop = prop
        self.tier = "thorough" if self.args.tier == "thorough" else "quick"
        self.seed = int(os.environ.get("VERIF_SEED", "0") or 0)
        self.description = description
        self.tasks = []
        self.t0 = time.time()
        self.known = load_known(prop)
        self.bounds = {}
        self.assumptions = []
        self.stubs = []
        self.expected_vacuity = []
        self.conformance = 0

    def add_task(self, name, fn, **kwargs):
        if self.args.only and self.args.only not in name:
            return
        self.tasks.append((fn, name, kwargs))

    def run(self):
        results = []
        if self.args.jobs <= 1 or len(self.tasks) <= 1:
            for t in self.tasks:
                results.append(_run_task(t))
        else:
            # largest tasks first is the caller's job (order of add_task)
            with mp.get_context("fork").Pool(min(self.args.jobs, len(self.tasks))) as pool:
                for r in pool.imap_unordered(_run_task, self.tasks, chunksize=1):
                    results.append(r)
        return self.finish(results)

    # ------------------------------------------------------------------ reporting
    def finish(self, results):
        results.sort(key=lambda r: r["task"])
        viol, nonrepro, known_hits = [], [], {}
        incon = [r for r in results if r["status"] != "ok"]
        agg = {}
        functions = {}
        samples = []
        vac = {}
        obligations = unsat = validated = 0
        for r in results:
            for k, v in (r.get("stats") or {}).items():
                if isinstance(v, (int, float)):
                    agg[k] = agg.get(k, 0) + v
            for f in r.get("functions", []):
                functions[(f["file"], f["function"])] = f
            for s in r.get("samples", []):
                if len(samples) < 12:
                    samples.append({"task": r["task"], **s} if isinstance(s, dict) else {"task": r["task"], "sample": s})
            for k, v in (r.get("vacuity") or {}).items():
                vac[k] = vac.get(k, False) or v
            obligations += r.get("obligations", 0)
            unsat += r.get("unsat", 0)
            validated += r.get("validated", 0)
            for v in r.get("violations", []):
                v = dict(v)
                v["task"] = r["task"]
                if v.get("kind") == "nonreproducing":
                    nonrepro.append(v)
                elif v.get("known_key") in self.known:
                    known_hits.setdefault(v["known_key"], v)
                else:
                    viol.append(v)
        missing_vac = [k for k in self.expected_vacuity if not vac.get(k)]
        wall = time.time() - self.t0
        os.makedirs(os.path.join(OUT, "evidence"), exist_ok=True)
        replay_path = None
        if viol:
            d = os.path.join(OUT, "replays", self.prop)
            os.makedirs(d, exist_ok=True)
            blob = json.dumps(viol[0], sort_keys=True, default=str)
            replay_path = os.path.join(d, hashlib.sha256(blob.encode()).hexdigest()[:12] + ".json")
            with open(replay_path, "w") as f:
                json.dump({"property": self.prop, "violation": viol[0], "all": viol[:20]}, f, indent=1, default=str)
        status = "ok"
        if viol:
            status = "violation"
        elif incon or nonrepro or missing_vac:
            status = "inconclusive"
        ev = {
            "property_id": self.prop,
            "tier": self.tier,
            "seed": self.seed,
            "level": "model_checking",
            "coverage": {
                "states": int(agg.get("states", 0) + agg.get("worlds_finished", 0)) or 1,
                "transitions": int(agg.get("steps", 0) + agg.get("forks", 0)) or 1,
                "traces_validated_against_impl": int(validated + self.conformance),
                "samples": samples or [{"note": "no sample recorded"}],
                "exhaustive": False,
                "explanation": self.description,
                "functions_encoded": sorted(functions.values(), key=lambda f: (f["file"], f["line"])),
                "bounds": self.bounds,
                "queries": int(agg.get("queries", 0)),
                "obligations": obligations,
                "obligations_unsat": unsat,
                "solver_s": round(agg.get("solver_s", 0.0), 3),
                "engine": {k: (round(v, 3) if isinstance(v, float) else v) for k, v in agg.items()},
                "stubs": self.stubs,
                "vacuity_witnesses": vac,
                "tasks": [{"task": r["task"], "status": r["status"], "wall_s": r["wall_s"],
                           **({"error": r.get("error")} if r["status"] != "ok" else {})} for r in results],
                "status": status,
                "known_findings_hit": sorted(known_hits),
            },
            "assumptions": self.assumptions,
            "wall_s": round(wall, 3),
            "violations": len(viol),
        }
        with open(os.path.join(OUT, "evidence", f"{self.prop}.json"), "w") as f:
            json.dump(ev, f, indent=1, default=str)
        for k, v in sorted(known_hits.items()):
            print(f"KNOWN-FINDING: property={self.prop} {k}: {self.known[k].get('what', '')} (witness input {v.get('input')!r})")
        print(f"[{self.prop}] tier={self.tier} tasks={len(results)} obligations={obligations} unsat={unsat} "
              f"queries={int(agg.get('queries', 0))} states={ev['coverage']['states']} validated={ev['coverage']['traces_validated_against_impl']} "
              f"solver_s={agg.get('solver_s', 0.0):.1f} wall={wall:.1f}s status={status}")
        if viol:
            for v in viol[:5]:
                print(f"  counterexample[{v.get('tag')}]: input={v.get('input')!r} observed={v.get('observed')!r} expected={v.get('expected')!r}")
            print(f"VIOLATION property={self.prop} replay={replay_path}")
            sys.exit(1)
        if incon or nonrepro or missing_vac:
            for r in incon[:5]:
                print(f"  inconclusive task {r['task']}: {r.get('error')}")
                if r["status"] == "error":
                    print(r.get("trace", ""))
            for v in nonrepro[:5]:
                print(f"  non-reproducing counterexample (engine/model error): {v}")
            if missing_vac:
                print(f"  vacuity witnesses not reached: {missing_vac}")
            sys.exit(2)
        sys.exit(0)
