"""World cloning and canonical state keys (used for merging)."""
import types
import re

import z3

from .values import *  # noqa
from .interp import (World, Frame, Cell, SFunc, BM, BuiltinMethod, NativeBound, SGen, CodeInfo, GlobalsRef, NULL)

_ATOMS = (type(None), bool, int, float, complex, str, bytes, SStr, SChar, SBool, SInt, CharVar, type,
          types.FunctionType, types.BuiltinFunctionType, types.ModuleType, types.CodeType, CodeInfo,
          GlobalsRef, frozenset, range, slice, property, classmethod, staticmethod, re.Pattern,
          types.MethodDescriptorType, types.WrapperDescriptorType, types.GetSetDescriptorType,
          types.MemberDescriptorType, types.MethodWrapperType, type(NotImplemented), type(Ellipsis),
          z3.ExprRef, types.CellType, types.ClassMethodDescriptorType)


class Cloner:
    def __init__(self, engine):
        self.eng = engine

    def owned(self, cls):
        return self.eng.world_owned_class(cls)

    def clone_world(self, W):
        memo = {}
        cp = lambda v: self.cp(v, memo)
        N = World()
        N.frames = [cp(F) for F in W.frames]
        N.g = W.g
        N.dd = W.dd
        N.decided = dict(W.decided)
        N.done = W.done
        N.result = cp(W.result)
        N.exc = cp(W.exc)
        N.handled = cp(W.handled)
        N.steps = W.steps
        N.mut = W.mut
        N.resume = W.resume
        N.at_loop = W.at_loop
        N.maxdepth = W.maxdepth
        N.maxrec = W.maxrec
        N.recent = W.recent
        N.tags = cp(W.tags)
        N.next_lid = W.next_lid
        N.idtab = {}
        for pid, (lid, obj) in W.idtab.items():
            if id(obj) in memo:
                n = memo[id(obj)]
                N.idtab[id(n)] = (lid, n)
        return N

    def cp(self, v, memo):
        if isinstance(v, _ATOMS) or v is NULL:
            return v
        i = id(v)
        r = memo.get(i)
        if r is not None:
            return r
        t = type(v)
        if t is list:
            r = memo[i] = []
            cp = self.cp
            r.extend([cp(x, memo) for x in v])
            return r
        if t is tuple:
            items = [self.cp(x, memo) for x in v]
            for a, b in zip(items, v):
                if a is not b:
                    r = tuple(items)
                    memo[i] = r
                    return r
            return v
        if t is dict or t.__name__ == "OrderedDict":
            r = memo[i] = t()
            for k, x in v.items():
                r[self.cp(k, memo)] = self.cp(x, memo)
            return r
        if t is set:
            r = memo[i] = set(v)
            return r
        if getattr(t, "_mutable_", False):
            r = memo[i] = t.__new__(t)
            for cls in t.__mro__:
                for s in getattr(cls, "__slots__", ()):
                    if hasattr(v, s):
                        setattr(r, s, self.cp(getattr(v, s), memo))
            if hasattr(v, "__dict__"):
                for k, x in v.__dict__.items():
                    r.__dict__[k] = self.cp(x, memo)
            return r
        if isinstance(v, BaseException):
            r = memo[i] = t.__new__(t)
            r.args = self.cp(v.args, memo)
            for k, x in v.__dict__.items():
                r.__dict__[k] = self.cp(x, memo)
            if v.__cause__ is not None:
                r.__cause__ = self.cp(v.__cause__, memo)
            if v.__context__ is not None:
                r.__context__ = self.cp(v.__context__, memo)
            return r
        if self.owned(t):
            r = memo[i] = object.__new__(t)
            for k, x in v.__dict__.items():
                r.__dict__[k] = self.cp(x, memo)
            return r
        # foreign object (logger, third-party converter, ...): shared
        return v


class Keyer:
    """Canonical serialisation of a world's control state + reachable heap.  Two worlds with the
    same key behave identically on every input that satisfies both guards, so they may be merged."""

    def __init__(self, engine):
        self.eng = engine

    def key(self, W):
        out = []
        memo = {}
        self.progress = 0
        for F in W.frames:
            self.k(F, out, memo)
        out.append("|")
        self.k(W.handled, out, memo)
        self.k(W.result, out, memo)
        self.k(W.exc, out, memo)
        self.k(W.tags, out, memo)
        out.append(W.done)
        return tuple(out)

    def k(self, v, out, memo):
        t = type(v)
        if v is None or t is bool or t is int or t is str or t is float:
            out.append(v)
            return
        if t is SStr:
            out.append("S")
            for c in v.cs:
                out.append(c if type(c) is str else c.key())
            out.append(")")
            return
        if t is SChar:
            out.append(("c",) + v.key())
            return
        if t is SBool:
            out.append(v.key())
            return
        if t is SInt:
            out.append(v.key())
            return
        if v is NULL:
            out.append("NULL")
            return
        if isinstance(v, (type, types.FunctionType, types.BuiltinFunctionType, types.ModuleType, types.CodeType,
                          CodeInfo, GlobalsRef, property, classmethod, staticmethod, types.MethodDescriptorType,
                          types.WrapperDescriptorType, re.Pattern, types.CellType)):
            out.append(("@", id(v)))
            return
        if t is frozenset or t is range or t is slice or t is bytes or t is complex or t is type(NotImplemented) or t is type(Ellipsis):
            out.append(("a", repr(v)))
            return
        i = id(v)
        if i in memo:
            out.append(("ref", memo[i]))
            return
        memo[i] = len(memo)
        if t is list or t is tuple:
            out.append("[" if t is list else "(")
            for x in v:
                self.k(x, out, memo)
            out.append("]")
            return
        if t is dict or t.__name__ == "OrderedDict":
            out.append("{")
            for kk, x in v.items():
                self.k(kk, out, memo)
                self.k(x, out, memo)
            out.append("}")
            return
        if t is set:
            out.append(("set", tuple(sorted(map(repr, v)))))
            return
        if t is Frame:
            out.append(("F", id(v.ci), v.pc, v.lasti, repr(v.ret) if not isinstance(v.ret, tuple) else v.ret[0], v.kwnames))
            if isinstance(v.ret, tuple):
                self.k(v.ret[1], out, memo)
            self.k(v.stack, out, memo)
            for nm in sorted(v.fast):
                out.append(nm)
                self.k(v.fast[nm], out, memo)
            for nm in sorted(v.cells):
                out.append(nm)
                self.k(v.cells[nm], out, memo)
            self.k(v.gen, out, memo)
            out.append("/F")
            return
        if getattr(t, "_mutable_", False):
            out.append(("M", t.__name__))
            pos = getattr(v, "progress_pos", None)
            if pos is not None:
                self.progress += pos()
            for cls in t.__mro__:
                for s in getattr(cls, "__slots__", ()):
                    if hasattr(v, s):
                        self.k(getattr(v, s), out, memo)
            if hasattr(v, "__dict__"):
                for kk in sorted(v.__dict__):
                    out.append(kk)
                    self.k(v.__dict__[kk], out, memo)
            out.append("/M")
            return
        if isinstance(v, BaseException):
            out.append(("E", id(t)))
            self.k(v.args, out, memo)
            for kk in sorted(v.__dict__):
                out.append(kk)
                self.k(v.__dict__[kk], out, memo)
            self.k(v.__cause__, out, memo)
            out.append("/E")
            return
        if self.eng.world_owned_class(t):
            out.append(("O", id(t)))
            for kk in sorted(v.__dict__):
                out.append(kk)
                self.k(v.__dict__[kk], out, memo)
            out.append("/O")
            return
        out.append(("@", id(v)))
